(* Values.v — Python / numpy values that occur in NIR node fields, dictionaries and files.
   Array payloads are opaque: an array is (dtype name, shape, content token, integer
   content when the array is a small integer array).  The token is a digest of the raw
   bytes computed by the harness, so "identical content" is token equality. *)
From NIR Require Export Base.Base.

Inductive pval :=
| VNone
| VInt (z : Z)                         (* Python int *)
| VBool (b : bool)
| VFloat (bits : Z)                    (* Python float, IEEE bits, never interpreted *)
| VStr (s : string)                    (* text *)
| VBytes (s : string)                  (* bytes *)
| VArr (dt : string) (sh : list Z) (tok : Z) (ints : option (list Z))  (* numpy.ndarray *)
| VNp (dt : string) (tok : Z) (int : option Z)                          (* numpy scalar *)
| VTuple (l : list pval)
| VList (l : list pval)
| VDict (kv : list (string * pval)).

(* induction principle that reaches inside the nested lists *)
Section pval_ind2.
  Variable P : pval -> Prop.
  Hypothesis HNone : P VNone.
  Hypothesis HInt : forall z, P (VInt z).
  Hypothesis HBool : forall b, P (VBool b).
  Hypothesis HFloat : forall b, P (VFloat b).
  Hypothesis HStr : forall s, P (VStr s).
  Hypothesis HBytes : forall s, P (VBytes s).
  Hypothesis HArr : forall dt sh tok ints, P (VArr dt sh tok ints).
  Hypothesis HNp : forall dt tok i, P (VNp dt tok i).
  Hypothesis HTuple : forall l, Forall P l -> P (VTuple l).
  Hypothesis HList : forall l, Forall P l -> P (VList l).
  Hypothesis HDict : forall kv, Forall (fun p => P (snd p)) kv -> P (VDict kv).

  Fixpoint pval_ind2 (v : pval) : P v :=
    match v with
    | VNone => HNone | VInt z => HInt z | VBool b => HBool b | VFloat b => HFloat b
    | VStr s => HStr s | VBytes s => HBytes s
    | VArr dt sh tok ints => HArr dt sh tok ints
    | VNp dt tok i => HNp dt tok i
    | VTuple l => HTuple l ((fix go (l : list pval) : Forall P l :=
                               match l with [] => Forall_nil _
                               | x :: r => Forall_cons _ (pval_ind2 x) (go r) end) l)
    | VList l => HList l ((fix go (l : list pval) : Forall P l :=
                             match l with [] => Forall_nil _
                             | x :: r => Forall_cons _ (pval_ind2 x) (go r) end) l)
    | VDict kv => HDict kv ((fix go (l : list (string * pval)) : Forall (fun p => P (snd p)) l :=
                               match l with [] => Forall_nil _
                               | x :: r => Forall_cons _ (pval_ind2 (snd x)) (go r) end) kv)
    end.
End pval_ind2.

(* structural (Python-type-preserving) equality *)
Fixpoint pval_eqb (a b : pval) {struct a} : bool :=
  match a, b with
  | VNone, VNone => true
  | VInt x, VInt y => x =? y
  | VBool x, VBool y => Bool.eqb x y
  | VFloat x, VFloat y => x =? y
  | VStr x, VStr y => String.eqb x y
  | VBytes x, VBytes y => String.eqb x y
  | VArr d1 s1 t1 i1, VArr d2 s2 t2 i2 =>
      String.eqb d1 d2 && shape_eqb s1 s2 && (t1 =? t2) && option_eqb shape_eqb i1 i2
  | VNp d1 t1 i1, VNp d2 t2 i2 => String.eqb d1 d2 && (t1 =? t2) && option_eqb Z.eqb i1 i2
  | VTuple l1, VTuple l2 | VList l1, VList l2 =>
      (fix go (l1 l2 : list pval) : bool :=
         match l1, l2 with
         | [], [] => true
         | x :: r1, y :: r2 => pval_eqb x y && go r1 r2
         | _, _ => false
         end) l1 l2
  | VDict l1, VDict l2 =>
      (fix go (l1 l2 : list (string * pval)) : bool :=
         match l1, l2 with
         | [], [] => true
         | (k1, x) :: r1, (k2, y) :: r2 => String.eqb k1 k2 && pval_eqb x y && go r1 r2
         | _, _ => false
         end) l1 l2
  | _, _ => false
  end.

(* ---- views used by the constructors --------------------------------------------------- *)

(* the .shape attribute (ndarray and numpy scalars have one; Python numbers do not) *)
Definition shape_attr (v : pval) : result (list Z) :=
  match v with
  | VArr _ sh _ _ => Ok sh
  | VNp _ _ _ => Ok []
  | _ => Err AttributeError
  end.

(* an integer scalar: Python int, bool, numpy integer *)
Definition int_view (v : pval) : option Z :=
  match v with
  | VInt z => Some z
  | VBool b => Some (if b then 1 else 0)
  | VNp _ _ (Some z) => Some z
  | _ => None
  end.

Fixpoint ints_view (l : list pval) : option (list Z) :=
  match l with
  | [] => Some []
  | x :: r => match int_view x, ints_view r with
              | Some z, Some zs => Some (z :: zs)
              | _, _ => None
              end
  end.

(* a sequence of integers, whatever the container: tuple, list, 1-d integer ndarray *)
Definition seq_view (v : pval) : option (list Z) :=
  match v with
  | VTuple l | VList l => ints_view l
  | VArr _ [_] _ (Some l) => Some l
  | _ => None
  end.

(* "compared as numbers": scalar or sequence of integers, container and width ignored *)
Inductive numv := NScalar (z : Z) | NSeq (l : list Z).
Definition num_view (v : pval) : option numv :=
  match int_view v with
  | Some z => Some (NScalar z)
  | None =>
    match v with
    | VArr _ [] _ (Some [z]) => Some (NScalar z)
    | _ => match seq_view v with Some l => Some (NSeq l) | None => None end
    end
  end.

Definition numv_eqb (a b : numv) : bool :=
  match a, b with
  | NScalar x, NScalar y => x =? y
  | NSeq x, NSeq y => shape_eqb x y
  | _, _ => false
  end.

Definition is_dict (v : pval) : bool := match v with VDict _ => true | _ => false end.
Definition is_str (v : pval) : bool := match v with VStr _ => true | _ => false end.
