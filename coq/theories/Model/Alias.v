(* Alias.v — object identity in `to_dict` (C13 "shares no mutable state", C17 "separate reads are independent").

   The main model (Values.v / Nodes.v / Serial.v) is about VALUES; Python's mutable objects also have an
   IDENTITY, and the independence clause of C13 is about identities: no mutable object reachable from the
   dictionary `g.to_dict()` is (or views the memory of) an object reachable from `g`.  This file models exactly
   that layer: an object graph in which every mutable object carries its identity, and `to_dict` as the code
   performs it (dataclasses.asdict + the class-specific additions), threading the allocator of fresh identities.

   Executable definitions only; proofs are in Proofs/AliasProofs.v.  Tie to the code: the harness turns a real
   graph into an `obj` (identities = first-occurrence numbers of id() / of the owner of the memory), runs the
   real `to_dict`, and the sharing pattern it observes is compared with the pattern computed here (alias_check). *)
From NIR Require Export Base.Base.

Inductive obj :=
| OAtom                                      (* immutable value: None, bool, int, float, str, bytes, numpy scalar *)
| OArr (id buf tok : Z)                      (* ndarray: identity of the array object, identity of the memory it
                                                views (views of one buffer share `buf`), content token *)
| OTup (l : list obj)                        (* tuple: immutable container, may hold mutable objects *)
| OLst (id : Z) (l : list obj)               (* list *)
| ODct (id : Z) (kv : list (string * obj))   (* dict, insertion order *)
| ONode (id : Z) (cls : string) (fs : list (string * obj)).   (* dataclass instance: its fields, declaration order *)

(* every identity that occurs (array objects, buffers, lists, dicts, nodes), pre-order *)
Fixpoint ids (o : obj) : list Z :=
  match o with
  | OAtom => []
  | OArr id buf _ => [id; buf]
  | OTup l => flat_map ids l
  | OLst id l => id :: flat_map ids l
  | ODct id kv => id :: flat_map (fun p => ids (snd p)) kv
  | ONode id _ fs => id :: flat_map (fun p => ids (snd p)) fs
  end.

(* ---- dataclasses._asdict_inner ---------------------------------------------------------------------------
     dataclass instance -> a NEW plain dict of its fields, recursively;  list -> NEW list;  tuple -> new tuple;
     dict -> NEW dict;  anything else -> copy.deepcopy(obj): an ndarray becomes a NEW array owning NEW memory
     (each call has its own memo, so one array met twice is copied twice), an immutable atom is returned as is.
   `n` is the next unused identity; the result carries the next unused identity after the call. *)
Fixpoint asdict_inner (o : obj) (n : Z) {struct o} : obj * Z :=
  match o with
  | OAtom => (OAtom, n)
  | OArr _ _ tok => (OArr n (n + 1) tok, n + 2)
  | OTup l =>
      let '(l', n') :=
        (fix go (l : list obj) (n : Z) {struct l} : list obj * Z :=
           match l with
           | [] => ([], n)
           | x :: r => let '(x', n1) := asdict_inner x n in
                       let '(r', n2) := go r n1 in (x' :: r', n2)
           end) l n in
      (OTup l', n')
  | OLst _ l =>
      let '(l', n') :=
        (fix go (l : list obj) (n : Z) {struct l} : list obj * Z :=
           match l with
           | [] => ([], n)
           | x :: r => let '(x', n1) := asdict_inner x n in
                       let '(r', n2) := go r n1 in (x' :: r', n2)
           end) l (n + 1) in
      (OLst n l', n')
  | ODct _ kv | ONode _ _ kv =>
      let '(kv', n') :=
        (fix go (l : list (string * obj)) (n : Z) {struct l} : list (string * obj) * Z :=
           match l with
           | [] => ([], n)
           | (k, x) :: r => let '(x', n1) := asdict_inner x n in
                            let '(r', n2) := go r n1 in ((k, x') :: r', n2)
           end) kv (n + 1) in
      (ODct n kv', n')
  end.

(* copy.deepcopy as the class-specific to_dict methods use it: on the array (or None) stored under a type key *)
Definition deepcopy (o : obj) (n : Z) : obj * Z := asdict_inner o n.

Definition not_key (k : string) (p : string * obj) : bool := negb (String.eqb (fst p) k).

(* self.<field>[<key>] *)
Definition field_item (fs : list (string * obj)) (f k : string) : option obj :=
  match assoc f fs with
  | Some (ODct _ kv) => assoc k kv
  | _ => None
  end.

(* the entry a class adds after NIRNode.to_dict:  Input: shape = deepcopy(input_type['input']);
   Output: shape = deepcopy(output_type['output']);  Flatten: input_type = deepcopy(input_type['input']) *)
Definition class_extra (cls : string) (fs : list (string * obj)) (n : Z) : list (string * obj) * Z :=
  let add (key : string) (src : option obj) :=
    match src with
    | Some v => let '(v', n') := deepcopy v n in ([(key, v')], n')
    | None => ([], n)
    end in
  if String.eqb cls "Input" then add "shape" (field_item fs "input_type" "input")
  else if String.eqb cls "Output" then add "shape" (field_item fs "output_type" "output")
  else if String.eqb cls "Flatten" then add "input_type" (field_item fs "input_type" "input")
  else ([], n).

(* ---- NIRNode.to_dict / NIRGraph.to_dict --------------------------------------------------------------------
     ret = asdict(self); del ret['input_type'], ret['output_type']; ret['type'] = class name; class extra;
     NIRGraph: ret['nodes'] = {k: n.to_dict() for k, n in self.nodes.items()}   (a NEW dict, in place of the
     copy asdict made of the children — that discarded copy is not modelled: it is unobservable).
   Totalised on non-node objects (asdict_inner); the harness only passes nodes. *)
Fixpoint to_dict (o : obj) (n : Z) {struct o} : obj * Z :=
  match o with
  | ONode _ cls fs =>
      let is_graph := String.eqb cls "NIRGraph" in
      let '(kv, n1) :=
        (fix go (l : list (string * obj)) (n : Z) {struct l} : list (string * obj) * Z :=
           match l with
           | [] => ([], n)
           | (k, v) :: r =>
               let '(v', n1) :=
                 match v with
                 | ODct _ ch =>
                     if is_graph && String.eqb k "nodes" then
                       let '(ch', n') :=
                         (fix goc (l : list (string * obj)) (n : Z) {struct l} : list (string * obj) * Z :=
                            match l with
                            | [] => ([], n)
                            | (ck, c) :: cr => let '(c', n1) := to_dict c n in
                                               let '(cr', n2) := goc cr n1 in ((ck, c') :: cr', n2)
                            end) ch (n + 1) in
                       (ODct n ch', n')
                     else asdict_inner v n
                 | _ => asdict_inner v n
                 end in
               let '(r', n2) := go r n1 in ((k, v') :: r', n2)
           end) fs (n + 1) in
      let kv1 := filter (not_key "input_type") (filter (not_key "output_type") kv) ++ [("type", OAtom)] in
      let '(extra, n2) := class_extra cls fs n1 in
      (ODct n (kv1 ++ extra), n2)
  | _ => asdict_inner o n
  end.

(* ---- reading a file: every object of the result is newly allocated (h5py hands out fresh buffers and the
   constructors build new containers); `materialise` allocates a new identity for every mutable position of a
   skeleton, which is what two separate nir.read calls of one file do *)
Definition materialise (skeleton : obj) (n : Z) : obj * Z := asdict_inner skeleton n.

(* ---- in-place mutation: the object with identity p now looks like `new` wherever it occurs; for arrays the
   identity that matters is the memory (`buf`): writing through one view changes every view of that memory *)
Fixpoint update (p : Z) (new : obj) (o : obj) {struct o} : obj :=
  match o with
  | OAtom => OAtom
  | OArr id buf tok =>
      if buf =? p then match new with OArr _ _ tok' => OArr id buf tok' | _ => o end else o
  | OTup l => OTup (map (update p new) l)
  | OLst id l => if id =? p then new else OLst id (map (update p new) l)
  | ODct id kv => if id =? p then new else ODct id (map (fun q => (fst q, update p new (snd q))) kv)
  | ONode id cls fs => if id =? p then new else ONode id cls (map (fun q => (fst q, update p new (snd q))) fs)
  end.

(* ---- correspondence ----------------------------------------------------------------------------------------*)
Definition max_id (o : obj) : Z := fold_left Z.max (ids o) 0.

(* walk with the keys of every dictionary sorted (the key order of the returned dictionary is not an observable
   of the property; the harness walks the real dictionary the same way) *)
Fixpoint insert_kv (p : string * list Z) (l : list (string * list Z)) : list (string * list Z) :=
  match l with
  | [] => [p]
  | q :: r => if String.leb (fst p) (fst q) then p :: l else q :: insert_kv p r
  end.
Definition sort_kv (l : list (string * list Z)) : list (string * list Z) := fold_right insert_kv [] l.

Fixpoint ids_sorted (o : obj) : list Z :=
  match o with
  | OAtom => []
  | OArr id buf _ => [id; buf]
  | OTup l => flat_map ids_sorted l
  | OLst id l => id :: flat_map ids_sorted l
  | ODct id kv => id :: flat_map snd (sort_kv (map (fun p => (fst p, ids_sorted (snd p))) kv))
  | ONode id _ fs => id :: flat_map (fun p => ids_sorted (snd p)) fs
  end.

(* first-occurrence renumbering: the sharing pattern of a walk, independent of the concrete identities *)
Fixpoint index_of (x : Z) (l : list Z) (i : Z) : option Z :=
  match l with
  | [] => None
  | y :: r => if x =? y then Some i else index_of x r (i + 1)
  end.
Fixpoint canon_go (seen : list Z) (l : list Z) : list Z :=
  match l with
  | [] => []
  | x :: r => match index_of x seen 0 with
              | Some i => i :: canon_go seen r
              | None => Z.of_nat (length seen) :: canon_go (seen ++ [x]) r
              end
  end.
Definition canon (l : list Z) : list Z := canon_go [] l.

Fixpoint zlist_eqb (a b : list Z) : bool :=
  match a, b with
  | [], [] => true
  | x :: r, y :: s => (x =? y) && zlist_eqb r s
  | _, _ => false
  end.

(* the pattern of the walk "graph, then the dictionary to_dict returned" *)
Definition alias_pattern (g : obj) : list Z :=
  canon (ids g ++ ids_sorted (fst (to_dict g (max_id g + 1)))).
Definition alias_check (g : obj) (observed : list Z) : bool := zlist_eqb (alias_pattern g) observed.

(* two reads of one file.  nir.read builds every object anew from fresh h5py buffers, deterministically: the second
   result is the first one RELOCATED to fresh identities (same internal sharing — e.g. an Input's two type dictionaries
   hold one shape array, the graph-level type dictionary holds the children's — and nothing in common with the first) *)
Fixpoint shift (k : Z) (o : obj) {struct o} : obj :=
  match o with
  | OAtom => OAtom
  | OArr id buf tok => OArr (id + k) (buf + k) tok
  | OTup l => OTup (map (shift k) l)
  | OLst id l => OLst (id + k) (map (shift k) l)
  | ODct id kv => ODct (id + k) (map (fun q => (fst q, shift k (snd q))) kv)
  | ONode id cls fs => ONode (id + k) cls (map (fun q => (fst q, shift k (snd q))) fs)
  end.
Definition second_read (first : obj) : obj := shift (max_id first + 1) first.

(* the pattern of the walk "first result, then second result" *)
Definition reads_pattern (first : obj) : list Z := canon (ids first ++ ids (second_read first)).
Definition reads_check (first : obj) (observed : list Z) : bool := zlist_eqb (reads_pattern first) observed.
