(* Nodes.v — model of the NIR primitives: dataclass __init__ (argument binding against the
   introspected field table) + __post_init__ (normalisation, assertions, type derivation).
   nir/ir/{linear,neuron,conv,pooling,flatten,delay,threshold}.py and Input/Output of graph.py *)
From NIR Require Export Base.Values Model.Shapes Gen.Tables.

Inductive kind :=
| KInput | KOutput | KAffine | KLinear | KScale | KConv1d | KConv2d | KSumPool2d | KAvgPool2d
| KFlatten | KDelay | KThreshold | KI | KIF | KLI | KLIF | KCubaLIF | KGraph.

Definition all_kinds : list kind :=
  [KInput; KOutput; KAffine; KLinear; KScale; KConv1d; KConv2d; KSumPool2d; KAvgPool2d;
   KFlatten; KDelay; KThreshold; KI; KIF; KLI; KLIF; KCubaLIF; KGraph].

Definition kind_name (k : kind) : string :=
  match k with
  | KInput => "Input" | KOutput => "Output" | KAffine => "Affine" | KLinear => "Linear"
  | KScale => "Scale" | KConv1d => "Conv1d" | KConv2d => "Conv2d" | KSumPool2d => "SumPool2d"
  | KAvgPool2d => "AvgPool2d" | KFlatten => "Flatten" | KDelay => "Delay"
  | KThreshold => "Threshold" | KI => "I" | KIF => "IF" | KLI => "LI" | KLIF => "LIF"
  | KCubaLIF => "CubaLIF" | KGraph => "NIRGraph"
  end.

Definition kind_eqb (a b : kind) : bool := String.eqb (kind_name a) (kind_name b).

Definition kind_of_name (s : string) : option kind :=
  find (fun k => String.eqb (kind_name k) s) all_kinds.

(* ---- types -------------------------------------------------------------------------------- *)
(* a value inside input_type / output_type: None, an integer ndarray, a tuple/list, other *)
Inductive tyv := TNone | TArr (l : list Z) | TSeq (l : list Z) | TOther.
Definition ty := option (list (string * tyv)).

Definition tyv_eqb (a b : tyv) : bool :=
  match a, b with
  | TNone, TNone => true
  | TArr x, TArr y => shape_eqb x y
  | TSeq x, TSeq y => shape_eqb x y
  | TOther, TOther => true
  | _, _ => false
  end.

Definition ty_eqb (a b : ty) : bool :=
  option_eqb (list_eqb (fun p q => String.eqb (fst p) (fst q) && tyv_eqb (snd p) (snd q))) a b.

(* the numbers a type value denotes, container ignored (np.array_equal's view) *)
Definition tyv_nums (t : tyv) : option (list Z) :=
  match t with TArr l | TSeq l => Some l | _ => None end.

Definition tyv_of_pval (v : pval) : tyv :=
  match v with
  | VNone => TNone
  | VArr _ [_] _ (Some l) => TArr l
  | VTuple l | VList l => match ints_view l with Some zs => TSeq zs | None => TOther end
  | _ => TOther
  end.

Inductive node :=
| Leaf (k : kind) (fields : list (string * pval)) (tin tout : ty)
| Graph (children : list (string * node)) (edges : list (string * string))
        (gtin gtout : option (list (string * ty))) (meta : pval).

Definition node_kind (n : node) : kind := match n with Leaf k _ _ _ => k | Graph _ _ _ _ _ => KGraph end.
Definition node_fields (n : node) : list (string * pval) :=
  match n with Leaf _ f _ _ => f | Graph _ _ _ _ m => [("metadata", m)] end.

(* ---- dataclass __init__: bind keyword arguments against the field table ------------------- *)
Definition class_fields (k : kind) : option (list (string * fdef)) := assoc (kind_name k) class_table.

Fixpoint bind_fields (fs : list (string * fdef)) (args : list (string * pval))
  : result (list (string * pval)) :=
  match fs with
  | [] => Ok []
  | (f, d) :: r =>
    do v <- match assoc f args with
            | Some v => Ok v
            | None => match d with
                      | FMandatory => Err TypeError
                      | FDefault v => Ok v
                      | FDictFactory => Ok (VDict [])
                      | FUnknown => Err OtherError
                      end
            end;
    do rest <- bind_fields r args;
    Ok ((f, v) :: rest)
  end.

Definition bind_args (k : kind) (args : list (string * pval)) : result (list (string * pval)) :=
  match class_fields k with
  | None => Err OtherError
  | Some fs =>
    if forallb (fun a => mem_str (fst a) (keys fs)) args then bind_fields fs args
    else Err TypeError   (* unexpected keyword argument *)
  end.

(* ---- helpers ------------------------------------------------------------------------------- *)
Definition fld (f : string) (fs : list (string * pval)) : result pval :=
  match assoc f fs with Some v => Ok v | None => Err AttributeError end.

Definition fld_shape (f : string) (fs : list (string * pval)) : result (list Z) :=
  do v <- fld f fs; shape_attr v.

Definition drop_types (fs : list (string * pval)) : list (string * pval) :=
  assoc_del "output_type" (assoc_del "input_type" fs).

Definition arr_ty (key : string) (sh : list Z) : ty := Some [(key, TArr sh)].
Definition undef_ty (key : string) : ty := Some [(key, TNone)].

(* all shapes in the list equal the first one (chained == of Python) *)
Fixpoint all_same (l : list (list Z)) : bool :=
  match l with
  | a :: ((b :: _) as r) => shape_eqb a b && all_same r
  | _ => true
  end.

(* parse_shape_argument(x, key) *)
Definition parse_shape (x : pval) (key : string) : result (list (string * tyv)) :=
  match x with
  | VArr _ _ _ _ => Ok [(key, tyv_of_pval x)]
  | VTuple l | VList l =>
      Ok [(key, match ints_view l with Some zs => TArr zs | None => TOther end)]
  | VStr _ => Ok [(key, TOther)]
  | VDict kv => Ok (map (fun p => (fst p, tyv_of_pval (snd p))) kv)
  | VNone => Ok [(key, TNone)]
  | _ => Err TypeError      (* the helper returns None; subscripting it fails *)
  end.

Definition hp_of (v : pval) : hp :=
  match int_view v with
  | Some z => HInt z
  | None =>
    match v with
    | VTuple l | VList l => match ints_view l with Some zs => HSeq zs | None => HOther end
    | VArr _ [_] _ (Some l) => HArr l
    | VStr s => HStr s
    | _ => HOther
    end
  end.

(* numpy broadcasting of two shapes (aligned at the trailing axes) *)
Fixpoint bcast_rev (a b : list Z) : option (list Z) :=
  match a, b with
  | [], r | r, [] => Some r
  | x :: a', y :: b' =>
    match bcast_rev a' b' with
    | None => None
    | Some r => if x =? y then Some (x :: r) else if x =? 1 then Some (y :: r)
                else if y =? 1 then Some (x :: r) else None
    end
  end.
Definition broadcast_shapes (a b : list Z) : option (list Z) :=
  option_map (@rev Z) (bcast_rev (rev a) (rev b)).

(* the shape of "x" in "np.ones_like(p) * x" for the admissible forms of w_in *)
Definition operand_shape (v : pval) : result (list Z) :=
  match v with
  | VArr _ sh _ _ => Ok sh
  | VNp _ _ _ | VInt _ | VFloat _ | VBool _ => Ok []
  | _ => Err TypeError
  end.

Definition pad_is_bad_string (v : pval) : bool :=
  match v with
  | VStr s => negb (String.eqb s "same" || String.eqb s "valid")
  | VBytes _ => true
  | _ => false
  end.

(* Conv2d: a Python int becomes a pair (numpy integers are not `int` instances) *)
Definition pair_if_int (v : pval) : pval :=
  match v with
  | VInt z => VTuple [VInt z; VInt z]
  | VBool b => VTuple [VBool b; VBool b]
  | _ => v
  end.

Definition elementwise (k : kind) (fs : list (string * pval)) (names : list string) : result node :=
  do shapes <- mapM (fun f => fld_shape f fs) names;
  if all_same shapes then
    match shapes with
    | sh :: _ => Ok (Leaf k (drop_types fs) (arr_ty "input" sh) (arr_ty "output" sh))
    | [] => Err OtherError
    end
  else Err AssertionError.

Definition matvec (k : kind) (fs : list (string * pval)) : result node :=
  do w <- fld_shape "weight" fs;
  if Nat.ltb (length w) 2 then Err AssertionError
  else
    let b := firstn (length w - 2) w in
    let m := nth (length w - 2) w 0 in
    let n := nth (length w - 1) w 0 in
    Ok (Leaf k (drop_types fs) (arr_ty "input" (b ++ [n])) (arr_ty "output" (b ++ [m]))).

Definition post_init (k : kind) (fs : list (string * pval)) : result node :=
  match k with
  | KInput =>
    do x <- fld "input_type" fs;
    do tin <- parse_shape x "input";
    match assoc "input" tin with
    | Some v => Ok (Leaf k (drop_types fs) (Some tin) (Some [("output", v)]))
    | None => Err KeyError
    end
  | KOutput =>
    do x <- fld "output_type" fs;
    do tout <- parse_shape x "output";
    match assoc "output" tout with
    | Some v => Ok (Leaf k (drop_types fs) (Some [("input", v)]) (Some tout))
    | None => Err KeyError
    end
  | KAffine | KLinear => matvec k fs
  | KScale => elementwise k fs ["scale"]
  | KDelay => elementwise k fs ["delay"]
  | KThreshold => elementwise k fs ["threshold"]
  | KI => elementwise k fs ["r"]
  | KIF => elementwise k fs ["r"; "v_threshold"]
  | KLI => elementwise k fs ["tau"; "r"; "v_leak"]
  | KLIF => elementwise k fs ["tau"; "r"; "v_leak"; "v_threshold"]
  | KCubaLIF =>
    do n <- elementwise k fs ["tau_syn"; "tau_mem"; "r"; "v_leak"; "v_threshold"];
    do sh <- fld_shape "v_threshold" fs;
    do w <- fld "w_in" fs;
    do wsh <- operand_shape w;
    match broadcast_shapes sh wsh with
    | None => Err ValueError
    | Some r =>
      if shape_eqb r sh then
        (* np.ones_like(v_threshold) * w_in: a new array of shape sh whose dtype is numpy's
           promotion of both dtypes; its content is not modelled (token -1 = derived) *)
        let w' := VArr "?" sh (-1) None in
        match n with
        | Leaf k' f tin tout => Ok (Leaf k' (assoc_set "w_in" w' f) tin tout)
        | _ => Err OtherError
        end
      else Err AssertionError
    end
  | KConv1d =>
    do pad <- fld "padding" fs;
    if pad_is_bad_string pad then Err ValueError else
    do ish <- fld "input_shape" fs;
    match ish with
    | VNone => Ok (Leaf k (drop_types fs) (undef_ty "input") (undef_ty "output"))
    | _ =>
      do w <- fld_shape "weight" fs;
      do c_in <- py_index w 1;
      match int_view ish with
      | None => Err ValueError
      | Some n =>
        do kk <- py_index w 2;
        do c_out <- py_index w 0;
        do stride <- fld "stride" fs;
        do dil <- fld "dilation" fs;
        do out <- conv_out (HInt n) (hp_of pad) (hp_of dil) (HInt kk) (hp_of stride);
        Ok (Leaf k (drop_types fs) (arr_ty "input" [c_in; n]) (arr_ty "output" (c_out :: out)))
      end
    end
  | KConv2d =>
    do pad <- fld "padding" fs;
    if pad_is_bad_string pad then Err ValueError else
    do stride <- fld "stride" fs;
    do dil <- fld "dilation" fs;
    let fs' := assoc_set "dilation" (pair_if_int dil)
                 (assoc_set "stride" (pair_if_int stride)
                    (assoc_set "padding" (pair_if_int pad) fs)) in
    do ish <- fld "input_shape" fs;
    match ish with
    | VNone => Ok (Leaf k (drop_types fs') (undef_ty "input") (undef_ty "output"))
    | _ =>
      do w <- fld_shape "weight" fs;
      do c_in <- py_index w 1;
      match seq_view ish with
      | None => Err TypeError
      | Some sp =>
        do c_out <- py_index w 0;
        do out <- conv_out (hp_of ish) (hp_of (pair_if_int pad)) (hp_of (pair_if_int dil))
                           (HSeq (skipn 2 w)) (hp_of (pair_if_int stride));
        Ok (Leaf k (drop_types fs') (arr_ty "input" (c_in :: sp)) (arr_ty "output" (c_out :: out)))
      end
    end
  | KSumPool2d | KAvgPool2d =>
    Ok (Leaf k (drop_types fs) (undef_ty "input") (undef_ty "output"))
  | KFlatten =>
    do x <- fld "input_type" fs;
    do tin <- parse_shape x "input";
    match assoc "input" tin with
    | None => Err KeyError
    | Some TNone => Ok (Leaf k (drop_types fs) (undef_ty "input") (undef_ty "output"))
    | Some tv =>
      match tyv_nums tv with
      | None => Err TypeError
      | Some sh =>
        do sd <- fld "start_dim" fs;
        do ed <- fld "end_dim" fs;
        match int_view sd, int_view ed with
        | Some s, Some e =>
          let out := flatten_out sh s e in
          if prodZ sh =? prodZ out
          then Ok (Leaf k (drop_types fs) (Some tin) (arr_ty "output" out))
          else Err ValueError
        | _, _ => Err TypeError
        end
      end
    end
  | KGraph => Err OtherError   (* graphs are built by Graph.mk_graph *)
  end.

(* the call Cls(keyword arguments) *)
Definition construct (k : kind) (args : list (string * pval)) : result node :=
  do fs <- bind_args k args;
  post_init k fs.

Definition node_tin (n : node) : ty := match n with Leaf _ _ t _ => t | Graph _ _ _ _ _ => None end.
Definition node_tout (n : node) : ty := match n with Leaf _ _ _ t => t | Graph _ _ _ _ _ => None end.
