(* FS.v — one filesystem path as seen through nir.write / nir.read / read_version.
   h5py.File(path,'w') truncates, File(path,'r') does not modify (law A5); a write that raises
   part-way leaves a file whose content the model does not specify. *)
From NIR Require Export Model.Serial.

Inductive fstate := FAbsent | FHolds (t : h5) | FUnspecified.

Inductive fop := FWrite (g : result node) | FRead | FReadVersion.

Inductive fres := RWrote | RWriteRaised | RGraph (n : node) | RReadRaised | RVersion (s : string)
                | RVersionRaised | RAnything.

Definition fstep (st : fstate) (o : fop) : fstate * fres :=
  match o with
  | FWrite (Ok g) =>
    match write g with
    | Ok t => (FHolds t, RWrote)
    | Err _ => (FUnspecified, RWriteRaised)
    end
  | FWrite (Err _) => (st, RAnything)            (* the graph could not even be built: no call *)
  | FRead =>
    match st with
    | FHolds t => (st, match read t with Ok n => RGraph n | Err _ => RReadRaised end)
    | FAbsent => (st, RReadRaised)
    | FUnspecified => (st, RAnything)
    end
  | FReadVersion =>
    match st with
    | FHolds t => (st, match read_version t with Ok s => RVersion s | Err _ => RVersionRaised end)
    | FAbsent => (st, RVersionRaised)
    | FUnspecified => (st, RAnything)
    end
  end.

Fixpoint frun (st : fstate) (ops : list fop) : fstate * list fres :=
  match ops with
  | [] => (st, [])
  | o :: r => let '(st1, x) := fstep st o in
              let '(st2, xs) := frun st1 r in (st2, x :: xs)
  end.

(* the tree written by the most recent successful write, if no failed write came after it *)
Fixpoint last_write (st : fstate) (ops : list fop) : fstate :=
  match ops with
  | [] => st
  | o :: r => last_write (fst (fstep st o)) r
  end.
