(* EventLoop.v — model of run_event_based_simulation (paper/01_lif/lif_exact_sim.py), the event loop of the
   exact LIF simulator, GENERIC in the neuron (the Python loop is duck-typed: it only calls
   advance_by_delta_t, apply_reset, calc_next_spike_time and reads state.v).  Times, currents and voltages are
   rationals (Q, kept in lowest terms with Qred so that evaluation stays small), so the model is executable and can be compared with the real loop run on a neuron whose
   arithmetic is exact (harness: a Fraction-based integrate-and-fire neuron). *)
From Coq Require Export QArith List.
Export ListNotations.
Open Scope Q_scope.

Section Loop.
  Variable V : Type.                                  (* neuron state *)
  Variable advance : V -> Q -> Q -> V.                (* advance_by_delta_t state i_input delta_t *)
  Variable next_spike : V -> Q -> option Q.           (* calc_next_spike_time; None = math.inf *)
  Variable reset : V -> V.                            (* apply_reset *)
  Variable volt : V -> Q.                             (* state.v *)

  (* times compared with math.inf: None is +infinity *)
  Definition tle (a b : option Q) : bool :=
    match a, b with
    | _, None => true
    | None, Some _ => false
    | Some x, Some y => Qle_bool x y
    end.
  Definition tlt (a b : option Q) : bool := negb (tle b a).

  Definition tadd (t : Q) (d : option Q) : option Q :=
    match d with Some x => Some (Qred (t + x)) | None => None end.

  Record lstate := {
    l_time : Q;                          (* current_time *)
    l_idx : nat;                         (* current_input_index *)
    l_amp : Q;                           (* current_input_amplitude *)
    l_spike : option Q;                  (* next_spike_time *)
    l_record : Q;                        (* next_record_time *)
    l_input : option Q;                  (* next_input_change_time *)
    l_neuron : V;
    l_volts : list (Q * Q);              (* record.times / record.voltages, most recent first *)
    l_spikes : list Q                    (* record.spikes, most recent first *)
  }.

  (* inputs.times[i] with IndexError -> inf *)
  Definition time_at (times : list Q) (i : nat) : option Q := nth_error times i.

  (* np.argmin([spike, record, input]): the FIRST minimal entry — priority spike < record < input *)
  Inductive ev := EvSpike | EvRecord | EvInput.
  Definition next_event (s : lstate) : ev :=
    let r := Some (l_record s) in
    if tle (l_spike s) r && tle (l_spike s) (l_input s) then EvSpike
    else if tle r (l_input s) then EvRecord
    else EvInput.

  Definition step (times amps : list Q) (record_dt : Q) (s : lstate) : lstate :=
    match next_event s with
    | EvSpike =>
      match l_spike s with
      | None => s                                            (* unreachable: the record time is finite *)
      | Some t =>
        let n1 := reset (advance (l_neuron s) (l_amp s) (Qred (t - l_time s))) in
        {| l_time := t; l_idx := l_idx s; l_amp := l_amp s;
           l_spike := tadd t (next_spike n1 (l_amp s));
           l_record := l_record s; l_input := l_input s; l_neuron := n1;
           l_volts := l_volts s; l_spikes := t :: l_spikes s |}
      end
    | EvRecord =>
      let t := l_record s in
      let n1 := advance (l_neuron s) (l_amp s) (Qred (t - l_time s)) in
      {| l_time := t; l_idx := l_idx s; l_amp := l_amp s; l_spike := l_spike s;
         l_record := Qred (t + record_dt); l_input := l_input s; l_neuron := n1;
         l_volts := (t, volt n1) :: l_volts s; l_spikes := l_spikes s |}
    | EvInput =>
      match l_input s with
      | None => s                                            (* unreachable *)
      | Some t =>
        let n1 := advance (l_neuron s) (l_amp s) (Qred (t - l_time s)) in
        let a := nth (l_idx s) amps 0 in
        {| l_time := t; l_idx := S (l_idx s); l_amp := a;
           l_spike := tadd t (next_spike n1 a);
           l_record := l_record s; l_input := time_at times (S (l_idx s)); l_neuron := n1;
           l_volts := l_volts s; l_spikes := l_spikes s |}
      end
    end.

  (* while current_time <= duration: ... *)
  Fixpoint loop (fuel : nat) (times amps : list Q) (record_dt duration : Q) (s : lstate) : option lstate :=
    match fuel with
    | O => None                                               (* out of fuel: excluded by the theorems' statements *)
    | S f =>
      if Qle_bool (l_time s) duration
      then loop f times amps record_dt duration (step times amps record_dt s)
      else Some s
    end.

  Definition init (n0 : V) (times : list Q) (record_dt : Q) : lstate :=
    {| l_time := 0; l_idx := 0; l_amp := 0; l_spike := None; l_record := record_dt;
       l_input := time_at times 0; l_neuron := n0; l_volts := []; l_spikes := [] |}.

  (* the NeuronRecord returned: (times+voltages in order, spikes in order) *)
  Definition simulate (fuel : nat) (n0 : V) (times amps : list Q) (record_dt duration : Q)
    : option (list (Q * Q) * list Q) :=
    match loop fuel times amps record_dt duration (init n0 times record_dt) with
    | Some s => Some (rev (l_volts s), rev (l_spikes s))
    | None => None
    end.
End Loop.

(* ---- an exact-arithmetic instance: the (non-leaky) integrate-and-fire neuron  dv/dt = R I ------------ *)
(* advance: v + R I dt; next spike: (thr - v) / (R I) when R I > 0 and v < thr ... mirrors the Fraction-based
   neuron class of the harness (harness/props/c20.py: FracIF) *)
Record ifn := { if_v : Q; if_r : Q; if_thr : Q }.
Definition if_advance (n : ifn) (i dt : Q) : ifn := {| if_v := Qred (if_v n + if_r n * i * dt); if_r := if_r n; if_thr := if_thr n |}.
Definition if_reset (n : ifn) : ifn := {| if_v := Qred (if_v n - if_thr n); if_r := if_r n; if_thr := if_thr n |}.
Definition if_next (n : ifn) (i : Q) : option Q :=
  let drive := Qred (if_r n * i) in
  if Qle_bool drive 0 then None
  else let t := Qred ((if_thr n - if_v n) / drive) in
       if Qle_bool 0 t then Some t else None.

Definition if_simulate (fuel : nat) (r thr : Q) (times amps : list Q) (record_dt duration : Q) :=
  simulate ifn if_advance if_next if_reset if_v fuel {| if_v := 0; if_r := r; if_thr := thr |} times amps record_dt duration.
