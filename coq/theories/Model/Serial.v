(* Serial.v — model of the dictionary form (node.py, graph.py, flatten.py, ir/__init__.py) and of
   nir/serialization.py over an abstract HDF5 tree.  h5py/libhdf5 are NOT verified: their
   behaviour enters through `np_asarray` / `read_dataset` below (store laws A1-A5 of DESIGN.md),
   which the correspondence run exercises against the real library on every run. *)
From NIR Require Export Model.Graph.

(* ---- abstract HDF5 tree --------------------------------------------------------------------- *)
Inductive h5 :=
| H5Group (members : list (string * h5))
| H5Str (enc : string) (s : string)               (* scalar string dataset; enc: physical encoding *)
| H5Data (v : pval)                               (* numeric dataset: a VArr (0-d for scalars)   *)
| H5Strs (enc : string) (rows : list (list string)).  (* n x m string dataset (edges)          *)

(* ---- to_dict --------------------------------------------------------------------------------- *)
Definition pval_of_tyv (t : tyv) : pval :=
  match t with
  | TNone => VNone
  | TArr l => VArr "?" [lenZ l] (-1) (Some l)          (* the shape array; dtype/token not modelled *)
  | TSeq l => VTuple (map VInt l)
  | TOther => VStr "?"
  end.

Definition ty_get (key : string) (t : ty) : pval :=
  match t with
  | Some d => match assoc key d with Some v => pval_of_tyv v | None => VNone end
  | None => VNone
  end.

Fixpoint to_dict (n : node) : list (string * pval) :=
  match n with
  | Leaf k fs tin tout =>
    let base := fs ++ [("type", VStr (kind_name k))] in
    match k with
    | KInput => base ++ [("shape", ty_get "input" tin)]
    | KOutput => base ++ [("shape", ty_get "output" tout)]
    | KFlatten => base ++ [("input_type", ty_get "input" tin)]
    | _ => base
    end
  | Graph ch es _ _ meta =>
    [("nodes", VDict (map (fun p => (fst p, VDict (to_dict (snd p)))) ch));
     ("edges", VList (map (fun e => VTuple [VStr (fst e); VStr (snd e)]) es));
     ("metadata", meta);
     ("type", VStr "NIRGraph")]
  end.

(* ---- from_dict / dict2NIRNode ---------------------------------------------------------------- *)
(* try_byte_to_str / ensure_str *)
Definition as_text (v : pval) : result string :=
  match v with VStr s | VBytes s => Ok s | _ => Err TypeError end.

(* the rows of an edge container: list/tuple of pairs, or what the reader produced *)
Definition edge_rows (v : pval) : result (list (string * string)) :=
  match v with
  | VList l | VTuple l =>
    mapM (fun row => match row with
                     | VTuple [a; b] | VList [a; b] => do x <- as_text a; do y <- as_text b; Ok (x, y)
                     | _ => Err ValueError
                     end) l
  | VArr _ (0 :: _) _ _ => Ok []            (* empty dataset: iterating yields nothing *)
  | _ => Err TypeError
  end.

Definition str2kind (s : string) : result kind :=
  if mem_str s whitelist
  then match assoc s whitelist_binding with
       | Some cname => match kind_of_name cname with Some k => Ok k | None => Err OtherError end
       | None => Err KeyError
       end
  else Err AssertionError.

Fixpoint dict2node (fuel : nat) (d : list (string * pval)) : result node :=
  match fuel with
  | O => Err OutOfFuel
  | S f =>
    match assoc "type" d with
    | None => Err KeyError
    | Some tv =>
      do tname <- (match tv with VStr s => Ok s | _ => Err AssertionError end);
      do k <- str2kind tname;
      match k with
      | KGraph =>
        do nodesv <- (match assoc "nodes" d with Some (VDict l) => Ok l | Some _ => Err AttributeError | None => Err KeyError end);
        do ch <- (fix go (l : list (string * pval)) : result (list (string * node)) :=
                    match l with
                    | [] => Ok []
                    | (name, v) :: r =>
                      do c <- (match v with VDict cd => dict2node f cd | _ => Err TypeError end);
                      do rest <- go r; Ok ((name, c) :: rest)
                    end) nodesv;
        do ev <- (match assoc "edges" d with Some v => Ok v | None => Err KeyError end);
        do es <- edge_rows ev;
        (* NIRNode.from_dict: the remaining keys become keyword arguments of NIRGraph(...) *)
        let rest := assoc_del "type" (assoc_del "edges" (assoc_del "nodes" d)) in
        if forallb (fun a => mem_str (fst a) ["metadata"; "input_type"; "output_type"]) rest
        then Ok (mk_graph ch es (match assoc "metadata" rest with Some m => m | None => VDict [] end))
        else Err TypeError
      | KInput =>
        match assoc "shape" d with
        | None => Err KeyError
        | Some sv => construct KInput (assoc_del "type" (assoc_del "shape"
                        (assoc_set "input_type" (VDict [("input", sv)]) d)))
        end
      | KOutput =>
        match assoc "shape" d with
        | None => Err KeyError
        | Some sv => construct KOutput (assoc_del "type" (assoc_del "shape"
                        (assoc_set "output_type" (VDict [("output", sv)]) d)))
        end
      | KFlatten =>
        let it := match assoc "input_type" d with Some v => v | None => VNone end in
        construct KFlatten (assoc_del "type" (assoc_set "input_type" (VDict [("input", it)]) d))
      | _ => construct k (assoc_del "type" d)
      end
    end
  end.

Fixpoint pval_depth (v : pval) : nat :=
  match v with
  | VDict l => S (fold_right (fun p acc => Nat.max (pval_depth (snd p)) acc) O l)
  | _ => O
  end.

Definition from_dict (d : list (string * pval)) : result node :=
  dict2node (S (pval_depth (VDict d))) d.

(* ---- write ------------------------------------------------------------------------------------- *)
Definition bad_name_char (c : ascii) : bool :=
  let n := nat_of_ascii c in Nat.eqb n 47 || Nat.eqb n 0.      (* '/' or NUL *)
Fixpoint has_bad_char (s : string) : bool :=
  match s with EmptyString => false | String c r => bad_name_char c || has_bad_char r end.

(* names h5py/HDF5 cannot create a link for *)
Definition unusable_name (s : string) : bool := String.eqb s "" || String.eqb s ".".

Definition int64_ok (z : Z) : bool := (- 9223372036854775808 <=? z) && (z <=? 9223372036854775807).

(* create_dataset(k, data=v) for a value that is neither str, ndarray nor dict: np.asarray(v) *)
Definition np_asarray (v : pval) : result h5 :=
  match v with
  | VInt z => if int64_ok z then Ok (H5Data (VArr "int64" [] (-1) (Some [z])))
              else if (0 <=? z) && (z <? 18446744073709551616)
                   then Ok (H5Data (VArr "uint64" [] (-1) (Some [z]))) else Err TypeError
  | VBool b => Ok (H5Data (VArr "bool" [] (-1) None))
  | VFloat b => Ok (H5Data (VArr "float64" [] (-1) None))
  | VNp dt tok i => Ok (H5Data (VArr dt [] tok (option_map (fun z => [z]) i)))
  | VBytes s => Ok (H5Str "fixed-ascii" s)
  | VTuple l | VList l =>
    match l with
    | [] => Ok (H5Data (VArr "float64" [0] (-1) (Some [])))
    | _ =>
      match ints_view l with
      | Some zs => if forallb int64_ok zs
                   then Ok (H5Data (VArr "int64" [lenZ zs] (-1) (Some zs))) else Err TypeError
      | None =>
        match mapM (fun row => match row with
                               | VTuple r | VList r =>
                                 mapM (fun x => match x with VStr s => Ok s | _ => Err TypeError end) r
                               | _ => Err TypeError
                               end) l with
        | Ok rows => Ok (H5Strs "vlen-utf-8" rows)
        | Err _ => Err TypeError        (* other sequences: not modelled, treated as unwritable *)
        end
      end
    end
  | _ => Err TypeError
  end.

Fixpoint write_rec (fuel : nat) (kv : list (string * pval)) : result (list (string * h5)) :=
  match fuel with
  | O => Err OutOfFuel
  | S f =>
    match kv with
    | [] => Ok []
    | (k, v) :: r =>
      if has_bad_char k then Err ValueError else
      do here <-
        (if String.eqb k "metadata" then
           match v with
           | VDict [] => Ok []
           | VDict l => do m <- write_rec f l; Ok [(k, H5Group m)]
           | _ => Err AttributeError
           end
         else if unusable_name k then Err ValueError
         else match v with
              | VStr s => Ok [(k, H5Str "vlen-utf-8" s)]
              | VArr _ _ _ _ => Ok [(k, H5Data v)]
              | VDict l => do m <- write_rec f l; Ok [(k, H5Group m)]
              | _ => do d <- np_asarray v; Ok [(k, d)]
              end);
      do rest <- write_rec f r;
      Ok (here ++ rest)
    end
  end.

Fixpoint pval_size (v : pval) : nat :=
  match v with
  | VDict l => S (fold_right (fun p acc => pval_size (snd p) + acc)%nat O l)
  | _ => 1%nat
  end.

Definition write (g : node) : result h5 :=
  let d := to_dict g in
  do m <- write_rec (S (pval_size (VDict d)) + length d) d;
  Ok (H5Group [("version", H5Str "vlen-utf-8" nir_version); ("node", H5Group m)]).

(* ---- read -------------------------------------------------------------------------------------- *)
(* item[()] followed by try_byte_to_str *)
Definition read_dataset (d : h5) : pval :=
  match d with
  | H5Str _ s => VStr s
  | H5Data (VArr dt [] tok i) => VNp dt tok (match i with Some [z] => Some z | _ => None end)
  | H5Data v => v
  | H5Strs _ rows => VList (map (fun r => VTuple (map VBytes r)) rows)
  | H5Group _ => VNone
  end.

Fixpoint hdf2dict (t : h5) : pval :=
  match t with
  | H5Group ms => VDict (map (fun p => (fst p, hdf2dict (snd p))) ms)
  | d => read_dataset d
  end.

Definition h5_member (k : string) (t : h5) : result h5 :=
  match t with
  | H5Group ms => match assoc k ms with Some x => Ok x | None => Err KeyError end
  | _ => Err TypeError
  end.

Definition read (t : h5) : result node :=
  do n <- h5_member "node" t;
  match hdf2dict n with
  | VDict d => from_dict d
  | _ => Err AttributeError
  end.

Definition read_version (t : h5) : result string :=
  do v <- h5_member "version" t;
  match v with H5Str _ s => Ok s | _ => Err AttributeError end.
