(* Graph.v — model of nir/ir/graph.py: NIRGraph.__post_init__, inputs/outputs, from_list,
   _check_types (active definition) and infer_types/_forward_type_inference (active definition,
   including the "fix:" commits: Output rule, refresh of the graph-level types). *)
From NIR Require Export Model.Nodes.
From Coq Require DecimalString Decimal.

(* ---- strings -------------------------------------------------------------------------------- *)
Definition lower_ascii (c : ascii) : ascii :=
  let n := nat_of_ascii c in
  if (Nat.leb 65 n && Nat.leb n 90)%bool then ascii_of_nat (n + 32) else c.
Fixpoint lower (s : string) : string :=
  match s with EmptyString => EmptyString | String c r => String (lower_ascii c) (lower r) end.

Definition dec (n : nat) : string := DecimalString.NilZero.string_of_uint (Nat.to_uint n).

Fixpoint prefix_rest (p s : string) : option string :=
  match p, s with
  | EmptyString, _ => Some s
  | String a p', String b s' => if Ascii.eqb a b then prefix_rest p' s' else None
  | _, EmptyString => None
  end.

(* s.replace(old, new) for non-empty old *)
Fixpoint str_replace_fuel (fuel : nat) (old new s : string) : string :=
  match fuel with
  | O => s
  | S f =>
    match prefix_rest old s with
    | Some rest => new ++ str_replace_fuel f old new rest
    | None => match s with
              | EmptyString => EmptyString
              | String c r => String c (str_replace_fuel f old new r)
              end
    end
  end%string.
Definition str_replace (old new s : string) : string :=
  str_replace_fuel (S (String.length s)) old new s.

(* ---- accessors ------------------------------------------------------------------------------- *)
Definition is_input (n : node) : bool := match n with Leaf KInput _ _ _ => true | _ => false end.
Definition is_output (n : node) : bool := match n with Leaf KOutput _ _ _ => true | _ => false end.
Definition is_graph (n : node) : bool := match n with Graph _ _ _ _ _ => true | _ => false end.

(* the input_type / output_type attribute of a child as the checks see it; for a nested graph
   the values are dictionaries, which the model does not interpret (TOther) *)
Definition child_tin (n : node) : ty :=
  match n with
  | Leaf _ _ t _ => t
  | Graph _ _ gt _ _ => option_map (map (fun p => (fst p, TOther))) gt
  end.
Definition child_tout (n : node) : ty :=
  match n with
  | Leaf _ _ _ t => t
  | Graph _ _ _ gt _ => option_map (map (fun p => (fst p, TOther))) gt
  end.

Definition inputs (ch : list (string * node)) := filter (fun p => is_input (snd p)) ch.
Definition outputs (ch : list (string * node)) := filter (fun p => is_output (snd p)) ch.

(* NIRGraph.__post_init__ *)
Definition graph_tin (ch : list (string * node)) : option (list (string * ty)) :=
  match inputs ch with
  | [] => None
  | l => Some (map (fun p => (fst p, node_tin (snd p))) l)
  end.
Definition graph_tout (ch : list (string * node)) : option (list (string * ty)) :=
  Some (map (fun p => (fst p, node_tout (snd p))) (outputs ch)).

Definition mk_graph (ch : list (string * node)) (edges : list (string * string)) (meta : pval) : node :=
  Graph ch edges (graph_tin ch) (graph_tout ch) meta.

(* ---- _check_types ------------------------------------------------------------------------------ *)
Definition tyv_is_none (t : tyv) : bool := match t with TNone => true | _ => false end.
Definition ty_undef (t : ty) : bool :=
  match t with None => true | Some l => existsb (fun p => tyv_is_none (snd p)) l end.

(* np.array_equal on two type values *)
Definition array_equal (a b : tyv) : result bool :=
  match tyv_nums a, tyv_nums b with
  | Some x, Some y => Ok (shape_eqb x y)
  | _, _ => match a, b with
            | TNone, TNone => Ok true
            | TOther, _ | _, TOther => Err OtherError
            | _, _ => Ok false
            end
  end.

Definition lookup_child (k : string) (ch : list (string * node)) : result node :=
  match assoc k ch with Some n => Ok n | None => Err KeyError end.

Definition check_edge (ch : list (string * node)) (e : string * string) : result unit :=
  do pre <- lookup_child (fst e) ch;
  do post <- lookup_child (snd e) ch;
  let tout := child_tout pre in
  let tin := child_tin post in
  if ty_undef tout then Err ValueError else
  if ty_undef tin then Err ValueError else
  match tout, tin with
  | Some o, Some i =>
    if negb (Nat.eqb (length o) (length i)) then Err ValueError else
    match o, i with
    | [(_, ov)], [(_, iv)] =>
      do eq <- array_equal iv ov;
      if eq then Ok tt else Err ValueError
    | _, _ => Err NotImplementedErr
    end
  | _, _ => Err ValueError
  end.

Fixpoint check_edges (ch : list (string * node)) (es : list (string * string)) : result bool :=
  match es with
  | [] => Ok true
  | e :: r => do _ <- check_edge ch e; check_edges ch r
  end.

Definition check_types (g : node) : result bool :=
  match g with
  | Graph ch es _ _ _ => check_edges ch es
  | _ => Err AttributeError
  end.

(* ---- _forward_type_inference -------------------------------------------------------------------- *)
Record istate := { st_ch : list (string * node); st_ready : list (string * string); st_seen : list string }.

Definition set_child (k : string) (n : node) (ch : list (string * node)) := assoc_set k n ch.

(* np.array_equal(np.array(list(a.values())), np.array(list(b.values()))) *)
Definition values_equal (a b : list (string * tyv)) : result bool :=
  match a, b with
  | [], [] => Ok true
  | [(_, x)], [(_, y)] => array_equal x y
  | [], [_] | [_], [] => Ok false
  | _, _ => Err OtherError
  end.

Definition rename_keys (old new : string) (l : list (string * tyv)) : list (string * tyv) :=
  dict_of (map (fun p => (str_replace old new (fst p), snd p)) l).

(* subscripting a type value: t[i], t[i:] *)
Definition tyv_index (t : tyv) (i : Z) : result Z :=
  match tyv_nums t with Some l => py_index l i | None => Err TypeError end.
Definition tyv_from (t : tyv) (i : Z) : result (list Z) :=
  match tyv_nums t with Some l => Ok (py_slice l (Some i) None) | None => Err TypeError end.

Definition get_key (k : string) (l : list (string * tyv)) : result tyv :=
  match assoc k l with Some v => Ok v | None => Err KeyError end.

Definition np_int (z : Z) : pval := VNp "int64" (-1) (Some z).

(* recompute an undefined output type of the target node.  Python mutates the node in place,
   so what was assigned before an exception stays assigned: the result is the fields and the
   output type as far as they were written, plus the exception if one was raised. *)
Definition dres := (list (string * pval) * option (list (string * tyv)) * option exn)%type.

Definition derive_output (k : kind) (fs : list (string * pval)) (pre_out tin : list (string * tyv))
  : dres :=
  match k with
  | KConv1d | KConv2d =>
    match (do tv <- get_key "input" tin;
           if kind_eqb k KConv1d
           then do n <- tyv_index tv 1; Ok (np_int n)
           else do l <- tyv_from tv 1; Ok (VTuple (map np_int l))) with
    | Err e => (fs, None, Some e)
    | Ok ish =>
      let fs' := assoc_set "input_shape" ish fs in
      match (do w <- fld_shape "weight" fs;
             do pad <- fld "padding" fs; do dil <- fld "dilation" fs; do stride <- fld "stride" fs;
             do out <- conv_out (hp_of ish) (hp_of pad) (hp_of dil) (HSeq (skipn 2 w)) (hp_of stride);
             do c_out <- py_index w 0;
             Ok (c_out :: out)) with
      | Err e => (fs', None, Some e)
      | Ok t => (fs', Some [("output", TArr t)], None)
      end
    end
  | KSumPool2d | KAvgPool2d =>
    match (do pv <- get_key "output" pre_out;
           do sp <- tyv_from pv 1;
           do pad <- fld "padding" fs; do ks <- fld "kernel_size" fs; do stride <- fld "stride" fs;
           do out <- conv_out (HArr sp) (hp_of pad) (HInt 1) (hp_of ks) (hp_of stride);
           do tv <- get_key "input" tin;
           do c <- tyv_index tv 0;
           Ok (c :: out)) with
    | Err e => (fs, None, Some e)
    | Ok t => (fs, Some [("output", TArr t)], None)
    end
  | KFlatten =>
    match (do tv <- get_key "input" tin;
           match tyv_nums tv with
           | None => Err TypeError
           | Some sh =>
             do sd <- fld "start_dim" fs; do ed <- fld "end_dim" fs;
             match int_view sd, int_view ed with
             | Some s, Some e => Ok (sh, flatten_out sh s e)
             | _, _ => Err TypeError
             end
           end) with
    | Err e => (fs, None, Some e)
    | Ok (sh, out) =>
      (fs, Some [("output", TArr out)],
       if prodZ sh =? prodZ out then None else Some AssertionError)
    end
  | _ => (fs, None, None)
  end.

(* the loop body for one popped edge: the target node as left by the body, and the exception
   if the body raised *)
Definition apply_edge (pre post : node) : node * option exn :=
  match pre, post with
  | Graph _ _ _ _ _, _ | _, Graph _ _ _ _ _ => (post, Some NotImplementedErr)
  | Leaf _ _ _ pre_tout, Leaf k fs tin tout =>
    match tin, pre_tout with
    | None, _ | _, None => (post, Some TypeError)          (* len(None) *)
    | Some i, Some o =>
      match values_equal o i with
      | Err e => (post, Some e)
      | Ok eq =>
        let mismatch := negb (Nat.eqb (length i) (length o)) || negb eq in
        let i' := if ty_undef tin || mismatch then rename_keys "output" "input" o else i in
        let tout1 := if kind_eqb k KOutput then Some (rename_keys "input" "output" i') else tout in
        if ty_undef tout1 then
          let '(fs', r, ex) := derive_output k fs o i' in
          (Leaf k fs' (Some i') (match r with Some t => Some t | None => tout1 end), ex)
        else (Leaf k fs (Some i') tout1, None)
      end
    end
  end.

Definition out_edges (es : list (string * string)) (src : string) (seen : list string) :=
  filter (fun e => String.eqb (fst e) src && negb (mem_str (snd e) seen)) es.

(* ready.pop() takes the LAST element; ready += ... appends *)
Definition pop_last {A} (l : list A) : option (list A * A) :=
  match rev l with [] => None | x :: r => Some (rev r, x) end.

Inductive outcome := Finished | Raised (e : exn).

Fixpoint run (fuel : nat) (es : list (string * string)) (st : istate) : istate * outcome :=
  match fuel with
  | O => (st, Raised OutOfFuel)
  | S f =>
    match pop_last (st_ready st) with
    | None => (st, Finished)
    | Some (rest, (pre_k, post_k)) =>
      let st0 := {| st_ch := st_ch st; st_ready := rest; st_seen := st_seen st |} in
      match lookup_child pre_k (st_ch st), lookup_child post_k (st_ch st) with
      | Ok pre, Ok post =>
        let '(post', ex) := apply_edge pre post in
        let ch' := set_child post_k post' (st_ch st) in
        match ex with
        | Some e => ({| st_ch := ch'; st_ready := rest; st_seen := st_seen st |}, Raised e)
        | None =>
          let seen' := post_k :: st_seen st in
          run f es {| st_ch := ch';
                      st_ready := rest ++ out_edges es post_k seen';
                      st_seen := seen' |}
        end
      | Err e, _ | _, Err e => (st0, Raised e)
      end
    end
  end.

Definition init_state (ch : list (string * node)) (es : list (string * string)) : istate :=
  let ready := filter (fun e => mem_str (fst e) (keys (inputs ch))) es in
  {| st_ch := ch; st_ready := ready; st_seen := map fst ready |}.

(* a generous bound on loop iterations; Props/C10.v shows that some fuel always suffices *)
Definition infer_fuel (ch : list (string * node)) (es : list (string * string)) : nat :=
  S (length es) * (S (length es) + S (length ch)).

(* infer_types(): returns the graph afterwards (it is mutated in place even when it raises)
   and whether it returned or raised *)
Definition gty_undef (t : option (list (string * ty))) : bool :=
  match t with
  | None => true
  | Some l => existsb (fun p => match snd p with None => true | Some _ => false end) l
  end.

Definition infer_types (g : node) : node * outcome :=
  match g with
  | Graph ch es gtin gtout meta =>
    if negb (gty_undef gtin) then
      let '(st, oc) := run (infer_fuel ch es) es (init_state ch es) in
      (mk_graph (st_ch st) es meta, oc)
    else if negb (gty_undef gtout) then (g, Raised NotImplementedErr)
    else (g, Raised ValueError)
  | _ => (g, Raised AttributeError)
  end.

(* ---- from_list ------------------------------------------------------------------------------------ *)
Fixpoint count_occ_str (s : string) (l : list string) : nat :=
  match l with [] => O | x :: r => (if String.eqb s x then 1 else 0) + count_occ_str s r end.

Definition unique_name (base : string) (earlier : list string) : string :=
  let id := count_occ_str base earlier in
  match id with O => base | _ => (base ++ "_" ++ dec id)%string end.

(* names given to the nodes, in order *)
Fixpoint name_nodes (ns : list node) (earlier : list string) : list (string * node) :=
  match ns with
  | [] => []
  | n :: r =>
    let base := lower (kind_name (node_kind n)) in
    (unique_name base earlier, n) :: name_nodes r (earlier ++ [base])
  end.

(* Input(input_type=t) where t is already a type dictionary (or None) *)
Definition input_of_ty (t : ty) : result node :=
  match t with
  | None => Ok (Leaf KInput [("metadata", VDict [])] (Some [("input", TNone)]) (Some [("output", TNone)]))
  | Some d =>
    match assoc "input" d with
    | Some v => Ok (Leaf KInput [("metadata", VDict [])] (Some d) (Some [("output", v)]))
    | None => Err KeyError
    end
  end.
Definition output_of_ty (t : ty) : result node :=
  match t with
  | None => Ok (Leaf KOutput [("metadata", VDict [])] (Some [("input", TNone)]) (Some [("output", TNone)]))
  | Some d =>
    match assoc "output" d with
    | Some v => Ok (Leaf KOutput [("metadata", VDict [])] (Some [("input", v)]) (Some d))
    | None => Err KeyError
    end
  end.

Fixpoint zip_next (l : list string) : list (string * string) :=
  match l with
  | a :: ((b :: _) as r) => (a, b) :: zip_next r
  | _ => []
  end.

Definition from_list (ns : list node) : result node :=
  match ns with
  | [] => Err IndexError
  | first :: _ =>
    do pre <- (if is_input first then Ok []
               else do i <- input_of_ty (child_tin first); Ok [("input", i)]);
    let d1 := fold_left (fun d kn => assoc_set (fst kn) (snd kn) d) (name_nodes ns []) pre in
    let lastn := last ns first in
    do d2 <- (if is_output lastn then Ok d1
              else do o <- output_of_ty (child_tout lastn); Ok (assoc_set "output" o d1));
    Ok (mk_graph d2 (zip_next (keys d2)) (VDict []))
  end.
