(* Shapes.v — model of nir/ir/utils.py: _index_tuple, calculate_conv_output,
   calc_flatten_output.  Mirrors the code branch by branch (after the "fix:" commits
   the arithmetic is done in exact Python integers, so Z is faithful with no bound). *)
From NIR Require Export Base.Base.

(* the forms a convolution hyper-parameter can take *)
Inductive hp :=
| HInt (z : Z)            (* Python int / numpy integer scalar *)
| HSeq (l : list Z)       (* tuple or list of ints *)
| HArr (l : list Z)       (* 1-d ndarray of any integer dtype *)
| HStr (s : string)       (* text string *)
| HOther.                 (* anything else (None, bytes, float, ...) *)

(* _index_tuple(tuple, index) followed by _exact_int *)
Definition index_tuple (h : hp) (i : Z) : result Z :=
  match h with
  | HArr l => py_index l i
  | HSeq l => py_index l i
  | HInt z => Ok z
  | HStr _ => Err ValueError      (* a str is a Sequence; int('s') raises *)
  | HOther => Err TypeError
  end.

Definition hp_is_str (h : hp) (s : string) : bool :=
  match h with HStr t => String.eqb s t | _ => false end.

(* one spatial axis of the closed formula; Python // is floor division = Z.div *)
Definition conv_axis (n p d k s : Z) : Z := (n + 2 * p - d * (k - 1) - 1) / s + 1.

Definition hp_ndim (h : hp) : result Z :=
  match h with
  | HInt _ => Ok 1
  | HSeq l | HArr l => Ok (lenZ l)
  | HStr s => Ok (Z.of_nat (String.length s))
  | HOther => Err TypeError
  end.

Fixpoint conv_out_axes (input padding dilation kernel stride : hp) (i : Z) (cnt : nat)
  : result (list Z) :=
  match cnt with
  | O => Ok []
  | S c =>
    do x <-
      (if hp_is_str padding "same" then index_tuple input i
       else
         do n <- index_tuple input i;
         do p <- index_tuple padding i;
         do d <- index_tuple dilation i;
         do k <- index_tuple kernel i;
         do s <- index_tuple stride i;
         if s =? 0 then Err OtherError (* ZeroDivisionError *)
         else Ok (conv_axis n p d k s));
    do r <- conv_out_axes input padding dilation kernel stride (i + 1) c;
    Ok (x :: r)
  end.

(* calculate_conv_output(input_shape, padding, dilation, kernel_size, stride) *)
Definition conv_out (input padding dilation kernel stride : hp) : result (list Z) :=
  do nd <- hp_ndim input;
  let padding' := if hp_is_str padding "valid" then HSeq (repeat 0 (Z.to_nat nd)) else padding in
  conv_out_axes input padding' dilation kernel stride 0 (Z.to_nat nd).

(* calc_flatten_output(input_shape, start_dim, end_dim) on a 1-d shape *)
Definition flatten_out (sh : list Z) (s e : Z) : list Z :=
  let start := if s =? 0 then [] else py_slice sh None (Some s) in
  let mid := if e =? -1 then prodZ (py_slice sh (Some s) None)
             else prodZ (py_slice sh (Some s) (Some (e + 1))) in
  let tail := if (e =? -1) || (e =? lenZ sh - 1) then []
              else py_slice sh (Some (e + 1)) None in
  start ++ [mid] ++ tail.

(* ---- declarative reference semantics (what the properties talk about) ------------------ *)

(* normalise a possibly negative dimension index *)
Definition norm_dim (n i : Z) : Z := if i <? 0 then i + n else i.

(* "dimensions a..b (inclusive, normalised) merged into one" *)
Definition flatten_spec (sh : list Z) (a b : nat) : list Z :=
  firstn a sh ++ [prodZ (firstn (b + 1 - a) (skipn a sh))] ++ skipn (b + 1) sh.

(* number of positions i >= 0 at which a kernel of dilated extent d*(k-1)+1, stepped by s,
   fits inside the padded input of size n + 2p: counted among the candidates 0 .. n+2p *)
Definition fits (n p d k s i : Z) : bool := i * s + d * (k - 1) + 1 <=? n + 2 * p.

Fixpoint count_upto (f : Z -> bool) (m : nat) : Z :=
  match m with
  | O => 0
  | S m' => count_upto f m' + (if f (Z.of_nat m') then 1 else 0)
  end.

Definition positions (n p d k s : Z) : Z :=
  count_upto (fits n p d k s) (Z.to_nat (n + 2 * p + 1)).
