"""Emit Coq terms from Python values (trusted: part of the tie between model and code)."""
import struct
import hashlib

import numpy as np


def cz(n) -> str:
    n = int(n)
    return f"({n})" if n < 0 else str(n)


def cnat(n) -> str:
    return f"{int(n)}%nat"


def cbool(b) -> str:
    return "true" if b else "false"


def cstr(s) -> str:
    """A Coq string literal holding the UTF-8 bytes of s (str or bytes)."""
    b = s.encode("utf8", "surrogatepass") if isinstance(s, str) else bytes(s)
    if all(32 <= c < 127 and c != 34 for c in b):
        return '"' + b.decode("ascii") + '"'
    return "(string_of_bytes [" + ";".join(str(c) for c in b) + "])"


def clist(items) -> str:
    return "[" + "; ".join(items) + "]"


def copt(x, f=lambda v: v) -> str:
    return "None" if x is None else f"(Some {f(x)})"


def czlist(l) -> str:
    return clist([cz(x) for x in l])


def float_bits(x: float) -> int:
    return struct.unpack("<q", struct.pack("<d", float(x)))[0]


def canon_bytes(a) -> bytes:
    """C-order bytes of an array with the padding bytes of x87 extended-precision elements removed (they are not part of the
    value and are not preserved by numpy / HDF5 copies)"""
    a = np.asarray(a)
    if a.ndim == 0 and a.dtype.byteorder not in ("=", "|") and a.dtype.kind in "iufc":
        a = a.astype(a.dtype.newbyteorder("="))     # 0-d values travel as numpy scalars, which are always native
    a = np.ascontiguousarray(a)
    d = a.dtype
    base = d.itemsize // (2 if d.kind == "c" else 1)
    if d.kind in "fc" and base > 8:
        return a.reshape(-1).view(np.uint8).reshape(-1, base)[:, :10].tobytes()
    return a.tobytes()


def arr_token(a: np.ndarray) -> int:
    """Digest of dtype-independent raw C-order bytes (63 bit, non-negative)."""
    h = hashlib.sha256(canon_bytes(a)).digest()
    return int.from_bytes(h[:8], "little") >> 1


MAX_INTS = 32


def pval(v) -> str:
    """Python/numpy value -> Coq term of type pval."""
    if v is None:
        return "VNone"
    if isinstance(v, bool):
        return f"(VBool {cbool(v)})"
    if isinstance(v, np.generic):  # numpy scalar (np.str_/np.bytes_ are str/bytes too)
        if isinstance(v, np.str_):
            return f"(VStr {cstr(str(v))})"
        if isinstance(v, np.bytes_):
            return f"(VBytes {cstr(bytes(v))})"
        a = np.asarray(v)
        iv = copt(int(v), cz) if a.dtype.kind in "iu" else "None"
        return f"(VNp {cstr(a.dtype.name)} {cz(arr_token(a))} {iv})"
    if isinstance(v, int):
        return f"(VInt {cz(v)})"
    if isinstance(v, float):
        return f"(VFloat {cz(float_bits(v))})"
    if isinstance(v, str):
        return f"(VStr {cstr(v)})"
    if isinstance(v, (bytes, bytearray)):
        return f"(VBytes {cstr(v)})"
    if isinstance(v, np.ndarray):
        ints = "None"
        if v.dtype.kind in "iu" and v.size <= MAX_INTS:
            ints = "(Some " + czlist(int(x) for x in v.reshape(-1)) + ")"
        elif v.size == 0:
            ints = "(Some [])"
        dt = v.dtype.name if v.dtype.kind != "O" else "object"
        tok = arr_token(v) if v.dtype.kind != "O" else 0
        return f"(VArr {cstr(dt)} {czlist(v.shape)} {cz(tok)} {ints})"
    if isinstance(v, tuple):
        return "(VTuple " + clist([pval(x) for x in v]) + ")"
    if isinstance(v, list):
        return "(VList " + clist([pval(x) for x in v]) + ")"
    if isinstance(v, dict):
        return "(VDict " + clist([f"({cstr(k)}, {pval(x)})" for k, x in v.items()]) + ")"
    raise TypeError(f"cannot express {type(v)} as pval")


def tyv(v) -> str:
    """A value stored inside input_type/output_type -> Coq term of type tyv."""
    if v is None:
        return "TNone"
    if isinstance(v, np.ndarray):
        if v.ndim == 1 and (v.dtype.kind in "iu" or v.size == 0):
            return "(TArr " + czlist(int(x) for x in v) + ")"
        # numpy promotes [python int, np.uint64] to float64: an integer-valued float array still
        # denotes the same shape (the dtype of type arrays is checked by the C05 oracle only)
        if v.ndim == 1 and v.dtype.kind == "f" and all(float(x).is_integer() for x in v):
            return "(TArr " + czlist(int(x) for x in v) + ")"
        return "TOther"
    if isinstance(v, (tuple, list)) and all(isinstance(x, (int, np.integer)) for x in v):
        return "(TSeq " + czlist(int(x) for x in v) + ")"
    return "TOther"


def ty(t) -> str:
    """input_type / output_type attribute -> Coq term of type ty."""
    if t is None:
        return "None"
    if isinstance(t, dict):
        return "(Some " + clist([f"({cstr(k)}, {tyv(x)})" for k, x in t.items()]) + ")"
    return "(Some [(\"?\", TOther)])"
