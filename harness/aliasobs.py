"""Object-identity observations for Model/Alias.v (C13 independence, C17 separate reads).

A real object graph (a NIR node, a dictionary) is turned into a term of type `obj` whose identities are the
first-occurrence numbers of id() (objects) / of the owner of the memory (arrays), and into the walk of identities that
`ids` / `ids_sorted` of the model define.  Everything the model does not describe raises Unsupported: the case is then
decided by the oracle only (never silently mis-encoded).
"""
import dataclasses
import zlib

import numpy as np

from . import coqfmt as F


class Unsupported(Exception):
    pass


ATOMS = (type(None), bool, int, float, complex, str, bytes, np.generic)


class Numbering:
    def __init__(self):
        self.num = {}
        self.keep = []      # keep every numbered object alive: id() must not be reused

    def of(self, o, kind="obj"):
        # an array object and the memory it owns are two identities (Model/Alias.v: OArr id buf)
        k = (kind, id(o))
        if k not in self.num:
            self.num[k] = len(self.num) + 1
            self.keep.append(o)
        return self.num[k]

    def first_occurrence(self, walk):
        seen = {}
        out = []
        for x in walk:
            if x not in seen:
                seen[x] = len(seen)
            out.append(seen[x])
        return out


def owner(a):
    """the object that owns the memory an array views"""
    o = a
    while isinstance(o, np.ndarray) and o.base is not None:
        o = o.base
    return o


def nir_class(x):
    for c in type(x).__mro__:
        if (c.__module__ or "").startswith("nir."):
            return c.__name__
    return type(x).__name__


def encode(x, num, walk, sort_keys=False, depth=0, node_ok=True):
    """-> Coq term of type obj; appends the identities met (pre-order, as `ids` / `ids_sorted`) to walk"""
    if depth > 40:
        raise Unsupported("too deep")
    if isinstance(x, ATOMS) and not isinstance(x, np.ndarray):
        return "OAtom"
    if isinstance(x, np.ndarray):
        if x.dtype.kind == "O":
            raise Unsupported("object array")
        i, b = num.of(x), num.of(owner(x), "mem")
        walk += [i, b]
        try:
            tok = zlib.crc32(F.canon_bytes(x))
        except Exception:  # noqa: BLE001
            tok = 0
        return f"(OArr {i} {b} {tok})"
    if isinstance(x, tuple):
        return "(OTup " + F.clist([encode(v, num, walk, sort_keys, depth + 1, False) for v in x]) + ")"
    if isinstance(x, list):
        i = num.of(x)
        walk.append(i)
        return f"(OLst {i} " + F.clist([encode(v, num, walk, sort_keys, depth + 1, False) for v in x]) + ")"
    if isinstance(x, dict):
        if not all(isinstance(k, str) for k in x):
            raise Unsupported("non-str key")
        i = num.of(x)
        walk.append(i)
        items = list(x.items())
        if sort_keys:
            items.sort(key=lambda kv: kv[0].encode("utf8", "surrogatepass"))
        return f"(ODct {i} " + F.clist([f"({F.cstr(k)}, {encode(v, num, walk, sort_keys, depth + 1, node_ok == 'children')})" for k, v in items]) + ")"
    if dataclasses.is_dataclass(x) and not isinstance(x, type):
        if node_ok is not True:
            # a node inside metadata / a list: asdict copies its FIELDS only; the model's ONode also lists the two derived
            # type attributes, so such a graph is left to the oracle
            raise Unsupported("node outside the children dictionary")
        i = num.of(x)
        walk.append(i)
        names = [f.name for f in dataclasses.fields(x)]
        extra = [a for a in ("input_type", "output_type") if a not in names and hasattr(x, a)]
        graph = nir_class(x) == "NIRGraph"
        fs = [f"({F.cstr(n)}, {encode(getattr(x, n), num, walk, sort_keys, depth + 1, 'children' if graph and n == 'nodes' else False)})"
              for n in names + extra]
        return f"(ONode {i} {F.cstr(nir_class(x))} " + F.clist(fs) + ")"
    raise Unsupported(type(x).__name__)


def alias_case(g, d):
    """C13Alias term for a graph and the dictionary its to_dict() returned (None when not expressible)"""
    num = Numbering()
    try:
        wg, wd = [], []
        term = encode(g, num, wg)
        encode(d, num, wd, sort_keys=True)
    except (Unsupported, RecursionError):
        return None
    if len(wg) + len(wd) > 1500:
        return None
    return f"(C13Alias {term} {F.czlist(num.first_occurrence(wg + wd))})"


def reads_case(a, b):
    """C13Reads term for the results of two separate nir.read calls on one file"""
    num = Numbering()
    try:
        wa, wb = [], []
        term = encode(a, num, wa)
        encode(b, num, wb)
    except (Unsupported, RecursionError):
        return None
    if len(wa) + len(wb) > 1500:
        return None
    return f"(C13Reads {term} {F.czlist(num.first_occurrence(wa + wb))})"
