"""Single entry point of the verification machinery:  ./check <ID> [--tier quick|thorough] [--replay F]

For one property:
  1. regenerate coq/theories/Gen/*.v from /repo's working tree (introspection / translation);
  2. (re)build the Coq development up to Props/<ID>.vo  -> proof obligations re-checked by coqc;
  3. run corpus + generated cases on the real implementation, evaluate the independent oracle
     on what it did, and evaluate the Coq model on the same cases inside coqc (vm_compute);
  4. decide: VIOLATION with a concrete failing input / VIOLATION ... no-failing-input-found /
     KNOWN-FINDING / ok;  write evidence/<ID>.json.
Exit codes: 0 ok, 1 violation, 2 the machinery itself failed (a broken check, never a verdict).
"""
import argparse
import contextlib
import hashlib
import importlib
import io
import json
import os
import random
import re
import signal
import subprocess
import sys
import time
import traceback

ROOT = os.path.dirname(os.path.dirname(os.path.abspath(__file__)))
COQ = os.path.join(ROOT, "coq")
BUILD = os.path.join(ROOT, "build")
FORBIDDEN = re.compile(r"\b(Admitted|admit|Axiom|Parameter|Conjecture|Unset Guard|bypass_check|"
                       r"Admit Obligations|type-in-type|impredicative-set)\b")


class Infra(Exception):
    """The machinery failed (not a verdict about the property)."""


# ------------------------------------------------------------------------------------------------
# helpers for property modules
class Outcome:
    def __init__(self, coq=None, oracle=None, nontrivial=True, sig=None, info=None):
        self.coq = coq            # Coq term of the case (input + observation), or None
        self.oracle = oracle      # None = oracle satisfied; str = how the property fails
        self.nontrivial = nontrivial
        self.sig = sig            # hashable signature for counting distinct cases
        self.info = info          # free-form (for replay output)


class Timeout(Exception):
    pass


@contextlib.contextmanager
def time_limit(seconds):
    def handler(signum, frame):
        raise Timeout()
    old = signal.signal(signal.SIGALRM, handler)
    signal.alarm(seconds)
    try:
        yield
    finally:
        signal.alarm(0)
        signal.signal(signal.SIGALRM, old)


@contextlib.contextmanager
def quiet():
    with contextlib.redirect_stdout(io.StringIO()):
        yield


# ------------------------------------------------------------------------------------------------
def sh(cmd, timeout, cwd=ROOT):
    p = subprocess.run(cmd, shell=True, cwd=cwd, stdout=subprocess.PIPE, stderr=subprocess.STDOUT,
                       timeout=timeout, text=True)
    return p.returncode, p.stdout


def scan_forbidden():
    hits = []
    # the development = the files listed in _CoqProject (what `make` builds) + the generated case files
    listed = [l.strip() for l in open(os.path.join(COQ, "_CoqProject")) if l.strip().endswith(".v")]
    for rel in listed:
        for p in [os.path.join(COQ, rel)]:
            if os.path.exists(p):
                src = open(p).read()
                src = re.sub(r"\(\*.*?\*\)", "", src, flags=re.S)
                for m in FORBIDDEN.finditer(src):
                    hits.append(f"{p}: {m.group(0)}")
    return hits


def make_target(target, timeout=1500):
    """Build one .vo (and what it depends on) under a lock; returns (ok, log)."""
    os.makedirs(BUILD, exist_ok=True)
    lock = os.path.join(BUILD, ".lock")
    cmd = (f"flock {lock} sh -c 'test -f Makefile || coq_makefile -f _CoqProject -o Makefile >/dev/null; "
           f"make -j16 {target}'")
    rc, out = sh(cmd, timeout, cwd=COQ)
    return rc == 0, out


def coqc_file(path, timeout=600):
    rc, out = sh(f"coqc -Q {COQ}/theories NIR -w -notation-overridden {path}", timeout)
    for _ in range(4):
        # a compiled library left over from a run against ANOTHER tree (regenerated tables differ) that make did not see as
        # out of date: drop exactly that file, rebuild it, and try again (seen once when alternating trees through NIR_REPO)
        m = re.search(r"\(in file (\S+?\.vo)\)\s+makes inconsistent assumptions", out) if rc != 0 else None
        if not m or not os.path.realpath(m.group(1)).startswith(os.path.realpath(COQ) + os.sep):
            break
        stale = os.path.realpath(m.group(1))
        try:
            os.remove(stale)
        except OSError:
            break
        make_target(os.path.relpath(stale, os.path.realpath(COQ)))
        rc, out = sh(f"coqc -Q {COQ}/theories NIR -w -notation-overridden {path}", timeout)
    return rc, out


def print_assumptions(pid, theorems):
    """Returns {theorem: 'closed' | [axioms]}"""
    d = os.path.join(BUILD, "pa")
    os.makedirs(d, exist_ok=True)
    p = os.path.join(d, f"{pid}_pa.v")
    with open(p, "w") as f:
        f.write(f"From NIR Require Import Props.{pid}.\n")
        for t in theorems:
            f.write(f'Goal True. idtac "@@ {t}". exact I. Qed.\nPrint Assumptions {t}.\n')
    rc, out = coqc_file(p)
    if rc != 0:
        raise Infra(f"Print Assumptions failed for {pid}:\n{out[-2000:]}")
    res = {}
    chunks = out.split("@@ ")[1:]
    for ch in chunks:
        name, _, rest = ch.partition("\n")
        rest = rest.strip()
        if rest.startswith("Closed under the global context"):
            res[name.strip()] = "closed"
        else:
            axs = re.findall(r"^([A-Za-z_][\w.']*)\s*:", rest, flags=re.M)
            res[name.strip()] = sorted(set(a for a in axs if a != "Axioms"))     # "Axioms:" is the header line
    return res


def eval_cases_in_coq(pid, mod, terms, chunk=400):
    """Evaluate the model on the cases inside coqc; returns the list of bad (disagreeing) indices."""
    d = os.path.join(BUILD, "corr")
    os.makedirs(d, exist_ok=True)
    for f in os.listdir(d):
        if f.startswith(pid + "_"):
            os.remove(os.path.join(d, f))
    files = []
    for k in range(0, len(terms), chunk):
        p = os.path.join(d, f"{pid}_{k // chunk}.v")
        with open(p, "w") as f:
            f.write(f"From NIR Require Import {mod.COQ_IMPORT}.\n")
            f.write(f"Definition cases : list {mod.COQ_CASE_TYPE} := [\n")
            f.write(";\n".join(terms[k:k + chunk]))
            f.write("\n].\n")
            f.write(f"Eval vm_compute in (bad_indices {mod.COQ_CHECK} cases).\n")
        files.append((k, p))
    procs = []
    for k, p in files:
        procs.append((k, p, subprocess.Popen(
            f"ulimit -s unlimited 2>/dev/null; timeout 900 coqc -Q {COQ}/theories NIR -w -notation-overridden {p}",
            shell=True, cwd=ROOT, stdout=subprocess.PIPE, stderr=subprocess.STDOUT, text=True)))
    bad = []
    for k, p, pr in procs:
        out, _ = pr.communicate()
        if pr.returncode != 0:
            raise Infra(f"coqc failed on generated case file {p}:\n{out[-3000:]}")
        flat = " ".join(out.split())
        m = re.search(r"=\s*(\[.*?\]|nil)\s*(%nat)?\s*:\s*list nat", flat)
        if not m:
            raise Infra(f"cannot parse coqc output for {p}: {flat[-500:]}")
        nums = re.findall(r"\d+", m.group(1))
        bad += [k + int(x) for x in nums]
    return bad


def explain(pid, mod, term):
    """print a token-level diff between what the model computed and what was observed"""
    import difflib
    unwrap = getattr(mod, "EXPLAIN_UNWRAP", None)
    d = os.path.join(BUILD, "explain")
    os.makedirs(d, exist_ok=True)
    p = os.path.join(d, f"{pid}_explain.v")
    inner = term
    with open(p, "w") as f:
        f.write(f"From NIR Require Import {mod.COQ_IMPORT}.\nSet Printing Depth 100000. Set Printing Width 200.\n")
        f.write(f"Definition c := {term}.\n")
        if unwrap:
            f.write(f"Definition g := {unwrap} c.\n")
        else:
            f.write("Definition g := c.\n")
        f.write('Goal True. idtac "@@MODEL". exact I. Qed.\nEval vm_compute in (gmodel g).\n')
        f.write('Goal True. idtac "@@OBS". exact I. Qed.\nEval vm_compute in (gobs g).\n')
    rc, out = coqc_file(p)
    if rc != 0 or "@@OBS" not in out:
        print("   (cannot explain:", out[-300:], ")")
        return
    m, o = out.split("@@MODEL")[1].split("@@OBS")
    tok = lambda t: re.findall(r'"[^"]*"|[\w.\-]+|[^\s\w]', t)
    a, b = tok(m), tok(o)
    sm = difflib.SequenceMatcher(None, a, b, autojunk=False)
    for tag, i1, i2, j1, j2 in sm.get_opcodes():
        if tag != "equal":
            ctx = " ".join(a[max(0, i1 - 12):i1])
            print(f"   ...{ctx[-160:]}  MODEL[{' '.join(a[i1:i2])[:200]}]  OBSERVED[{' '.join(b[j1:j2])[:200]}]")


def load_known():
    known, fixed = [], []
    p = os.path.join(ROOT, "KNOWN_FINDINGS.txt")
    if os.path.exists(p):
        for line in open(p):
            line = line.strip()
            if line.startswith("known:"):
                m = re.match(r"known:\s*property=(\S+)\s+key=(\S+)\s*(.*)", line)
                if m:
                    known.append((m.group(1), m.group(2), m.group(3)))
            elif line.startswith("fixed:"):
                fixed.append(line)
    return known, fixed


def count_obligations(files):
    n = 0
    names = []
    for p in files:
        if os.path.exists(p):
            src = re.sub(r"\(\*.*?\*\)", "", open(p).read(), flags=re.S)
            for m in re.finditer(r"^\s*(Theorem|Lemma|Corollary|Example|Fact|Proposition)\s+([\w']+)", src, flags=re.M):
                n += 1
                names.append(m.group(2))
    return n, names


# ------------------------------------------------------------------------------------------------
def main():
    ap = argparse.ArgumentParser()
    ap.add_argument("pid")
    ap.add_argument("--tier", default=os.environ.get("VERIF_TIER", "quick"), choices=["quick", "thorough"])
    ap.add_argument("--replay", default=None)
    ap.add_argument("--debug", action="store_true")
    args = ap.parse_args()
    pid = args.pid
    seed = int(os.environ.get("VERIF_SEED", "0") or 0)
    t0 = time.time()
    try:
        rc = run_check(pid, args.tier, seed, args.replay, t0, args.debug)
    except Infra as e:
        print(f"CHECK-BROKEN property={pid}: {e}")
        sys.exit(2)
    except Exception:
        traceback.print_exc()
        print(f"CHECK-BROKEN property={pid}: harness exception")
        sys.exit(2)
    sys.exit(rc)


def run_check(pid, tier, seed, replay, t0, debug=False):
    mod = importlib.import_module(f"harness.props.{pid.lower()}")
    notes = []
    broken = []      # names of proof obligations / correspondences that no longer check

    # 1. regenerate Gen/*.v from the live source
    try:
        with quiet():
            from . import gen_tables, gen_lif, gen_evloop
            gen_tables.main()
            for other in (gen_lif.main, gen_evloop.main):
                if other not in getattr(mod, "GENERATORS", []):
                    try:                  # keep the other generated files fresh too (a stale fail-closed stub of an
                        other()           # earlier run must not linger); their failure concerns C20 only
                    except Exception:
                        pass
            for g in getattr(mod, "GENERATORS", []):
                g()
    except Exception as e:
        broken.append(f"generation of Gen/*.v from /repo failed closed: {type(e).__name__}: {e}")

    hits = scan_forbidden()
    if hits:
        raise Infra("forbidden declarations in the development: " + "; ".join(hits[:5]))

    # 2. proofs
    props_vo = f"theories/Props/{pid}.vo"
    ok, log = make_target(props_vo)
    proof_ok = ok
    if not ok:
        m = re.search(r'File "([^"]+)", line (\d+)[^\n]*\n(.*?)(?=\nmake|\Z)', log, flags=re.S)
        where = f"{m.group(1)}:{m.group(2)}: {' '.join(m.group(3).split())[:300]}" if m else log[-400:]
        broken.append(f"proof obligation no longer checks while building {props_vo}: {where}")
    model_ok = True
    if mod.COQ_IMPORT:
        corr_vo = "theories/" + mod.COQ_IMPORT.replace(".", "/") + ".vo"
        model_ok, mlog = make_target(corr_vo)
        if not model_ok:
            broken.append(f"model {corr_vo} no longer builds against the regenerated tables: {mlog[-300:]}")

    assumptions = {}
    if proof_ok:
        assumptions = print_assumptions(pid, mod.THEOREMS)

    coqchk = None
    if tier == "thorough" and proof_ok and not replay:
        rc, out = sh(f"timeout 1500 coqchk -Q {COQ}/theories NIR NIR.Props.{pid} -o -silent", 1600)
        if rc != 0:
            broken.append(f"coqchk (independent checker) rejected Props/{pid}.vo: {out[-300:]}")
            coqchk = "rejected"
        else:
            m = re.search(r"\* Axioms:(.*?)\* Constants", out, flags=re.S)
            coqchk = " ".join(m.group(1).split()) if m else "ok"

    # 3. cases
    def all_cases(seed_, tier_):
        cs = []
        cdir_ = os.path.join(ROOT, "corpus", pid)
        if os.path.isdir(cdir_):
            for f in sorted(os.listdir(cdir_)):
                if f.endswith(".json"):
                    c_ = json.load(open(os.path.join(cdir_, f)))
                    c_["_corpus"] = f
                    cs.append(c_)
        rng_ = random.Random(seed_ * 1000003 + int(hashlib.sha256(pid.encode()).hexdigest()[:6], 16))
        return cs + mod.gen(rng_, tier_)

    if replay:
        rep = json.load(open(replay))
        cases = [rep["case"]] if "case" in rep and rep["case"] is not None else []
        if cases and rep.get("history"):
            # some failures need what the process did before (caches, module-level state): replay the recorded run up to the
            # recorded case first (same PRNG seed, same tier, same corpus), then the case itself
            h = rep["history"]
            prefix = all_cases(h["seed"], h["tier"])[:h["index"] + 1]
            same = bool(prefix) and json.dumps({k: v for k, v in prefix[-1].items() if k != "_corpus"}, sort_keys=True) == \
                json.dumps({k: v for k, v in cases[0].items() if k != "_corpus"}, sort_keys=True)
            if same and len(prefix) > 1:
                print(f"(replaying the {len(prefix) - 1} cases that preceded the recorded case in its run first: some failures depend on "
                      f"what the process did before)")
                for c_ in prefix[:-1]:
                    try:
                        with quiet():
                            mod.run(c_)
                    except BaseException:  # noqa: BLE001
                        pass
    else:
        cases = []
        cdir = os.path.join(ROOT, "corpus", pid)
        if os.path.isdir(cdir):
            for f in sorted(os.listdir(cdir)):
                if f.endswith(".json"):
                    c = json.load(open(os.path.join(cdir, f)))
                    c["_corpus"] = f
                    cases.append(c)
        rng = random.Random(seed * 1000003 + int(hashlib.sha256(pid.encode()).hexdigest()[:6], 16))
        cases += mod.gen(rng, tier)

    outcomes = []
    n_timeouts = 0
    for c in cases:
        if n_timeouts >= 3:   # a non-terminating implementation: do not spend 10 s on every case
            outcomes.append(Outcome(coq=None, oracle=None, nontrivial=False, sig=("skipped",)))
            continue
        try:
            with quiet():
                o = mod.run(c)
        except Timeout:
            o = Outcome(coq=None, oracle="call did not terminate within the wall-clock guard", sig=("timeout",))
        except Exception as e:  # noqa: BLE001
            # an exception the property module did not expect: when it was RAISED INSIDE the tree under test (innermost frame
            # is a file of that tree) the implementation failed on an input of the property's domain where every module's
            # un-guarded calls are calls that must return; otherwise the machinery is broken (exit 2, below)
            import traceback
            tb = traceback.extract_tb(e.__traceback__)
            root = os.path.realpath(os.environ.get("NIR_REPO", "/repo")) + os.sep
            if tb and os.path.realpath(tb[-1].filename).startswith(root):
                where = f"{os.path.relpath(os.path.realpath(tb[-1].filename), root)}:{tb[-1].lineno}"
                o = Outcome(coq=None, oracle=f"the implementation raised {type(e).__name__}: {e} at {where} on an input for which the "
                            f"property requires a result", sig=("raised", where))
            else:
                raise
        if o.oracle and "did not terminate" in o.oracle:
            n_timeouts += 1
        outcomes.append(o)

    oracle_fail = [i for i, o in enumerate(outcomes) if o.oracle]
    terms_idx = [i for i, o in enumerate(outcomes) if o.coq is not None]
    mismatches = []
    if model_ok and terms_idx:
        bad = eval_cases_in_coq(pid, mod, [outcomes[i].coq for i in terms_idx])
        mismatches = [terms_idx[b] for b in bad]
    if mismatches:
        broken.append(f"correspondence {mod.COQ_CHECK}: model and implementation disagree on "
                      f"{len(mismatches)} of {len(terms_idx)} cases")
    n_extra = 0
    if hasattr(mod, "extra_coq") and not replay:
        msgs, n_extra = mod.extra_coq(cases, outcomes, proof_ok)
        broken += msgs

    if debug:
        print(f"{len(mismatches)} mismatches, {len(oracle_fail)} oracle failures")
        for i in sorted(mismatches, key=lambda j: len(outcomes[j].coq))[:3]:
            print("MISMATCH case:", json.dumps(cases[i])[:600])
            explain(pid, mod, outcomes[i].coq)
        for i in oracle_fail[:6]:
            print("ORACLE-FAIL case:", json.dumps(cases[i])[:1500], "\n   ", outcomes[i].oracle)

    if replay:
        for i, c in enumerate(cases):
            print("case:", json.dumps(c)[:2000])
            print("oracle:", outcomes[i].oracle or "satisfied")
            print("model agrees with implementation:", i not in mismatches)
            if outcomes[i].info:
                print("info:", outcomes[i].info)
        if broken:
            print("broken:", "; ".join(broken))
        return 1 if (oracle_fail or broken) else 0

    # 4. decide
    known, fixed = load_known()
    violations = []
    known_hits = []
    rdir = os.path.join(ROOT, "evidence", "replay")
    os.makedirs(rdir, exist_ok=True)

    def case_key(c):
        return c.get("key") or hashlib.sha256(json.dumps(c, sort_keys=True).encode()).hexdigest()[:12]

    real_fail = []
    for i in oracle_fail:
        k = case_key(cases[i])
        hit = [x for x in known if x[0] == pid and x[1] == k]
        if hit:
            known_hits.append((k, hit[0][2]))
        else:
            real_fail.append(i)
    for k, what in sorted(set(known_hits)):
        print(f"KNOWN-FINDING: property={pid} {what} (key={k})")

    rc = 0
    if real_fail:
        # prefer the smallest failing case as the replay
        i = min(real_fail, key=lambda j: len(json.dumps(cases[j])))
        rp = os.path.join(rdir, f"{pid}_{case_key(cases[i])}.json")
        json.dump({"property": pid, "kind": "failing-input", "case": cases[i],
                   "oracle": outcomes[i].oracle, "model_disagrees": i in mismatches,
                   "broken": broken, "n_failing": len(real_fail),
                   "history": {"seed": seed, "tier": tier, "index": i}}, open(rp, "w"), indent=1)
        print(f"VIOLATION property={pid} replay={rp}")
        print("  " + outcomes[i].oracle.replace("\n", "\\n")[:1500])
        rc = 1
    elif broken:
        rp = os.path.join(rdir, f"{pid}_broken.json")
        j = mismatches[0] if mismatches else None
        json.dump({"property": pid, "kind": "no-failing-input-found", "broken": broken,
                   "case": cases[j] if j is not None else None,
                   "note": "the theorem/correspondence named in 'broken' no longer checks; the oracle "
                           "found no input on which the property fails"}, open(rp, "w"), indent=1)
        print(f"VIOLATION property={pid} replay={rp} no-failing-input-found")
        for b in broken:
            print("  " + b[:400])
        rc = 1

    # 5. evidence
    files = [os.path.join(COQ, "theories", "Props", f"{pid}.v")] + \
            [os.path.join(COQ, "theories", f) for f in getattr(mod, "PROOF_FILES", [])]
    n_ob, ob_names = count_obligations(files)
    sigs = set()
    for o in outcomes:
        if o.nontrivial:
            sigs.add(o.sig if o.sig is not None else o.coq)
    axioms = sorted({a for v in assumptions.values() if v != "closed" for a in v})
    samples = []
    for i in list(range(min(3, len(cases)))) + ([len(cases) - 1] if len(cases) > 3 else []):
        s = json.dumps(cases[i])
        samples.append(json.loads(s) if len(s) < 1500 else s[:1500] + "...")
    dist = {}
    for c in cases:
        dist[c.get("kind", "?")] = dist.get(c.get("kind", "?"), 0) + 1
    ev = {
        "property_id": pid, "tier": tier, "seed": seed, "level": "proof",
        "coverage": {
            "obligations": n_ob,
            "discharged": n_ob if proof_ok else 0,
            "checker_cmd": f"make -C coq {props_vo}  (coqc 8.16.1, full .vo build); "
                           f"coqc build/corr/{pid}_*.v (vm_compute correspondence)",
            "trusted_base": [
                "Coq 8.16.1 kernel incl. its bytecode VM (vm_compute); no native_compute",
                "axioms reported by Print Assumptions: " + (", ".join(axioms) if axioms else "none (closed under the global context)"),
                "harness/gen_tables.py (introspection -> Gen/Tables.v), harness/coqfmt.py + pyobs.py (emit cases/observations as Coq terms)",
                "hand-written Gallina model coq/theories/Model/*.v, tied to /repo by the correspondence run below",
            ] + list(getattr(mod, "TRUSTED", [])),
            "theorems": {k: (v if v == "closed" else v) for k, v in assumptions.items()},
            "coqchk_axioms": coqchk,
            "obligation_names": ob_names,
            "evaluations": len(cases),
            "distinct_nontrivial": len(sigs),
            "rule": mod.RULE,
            "samples": samples,
            "traces_validated_against_impl": len(terms_idx) + n_extra,
            "model_impl_disagreements": len(mismatches),
            "oracle_failures": len(oracle_fail),
            "case_kinds": dist,
            "exhaustive": False,
        },
        "assumptions": list(getattr(mod, "ASSUMPTIONS", [])),
        "wall_s": round(time.time() - t0, 2),
        "violations": (len(real_fail) if real_fail else (1 if broken else 0)),
    }
    os.makedirs(os.path.join(ROOT, "evidence"), exist_ok=True)
    json.dump(ev, open(os.path.join(ROOT, "evidence", f"{pid}.json"), "w"), indent=1)
    if rc == 0:
        print(f"OK property={pid} tier={tier} cases={len(cases)} model-checked={len(terms_idx)} "
              f"obligations={n_ob} wall={ev['wall_s']}s")
    return rc


if __name__ == "__main__":
    main()
