"""Observed Python objects / recipes -> Coq terms of the model's types."""
import dataclasses

import numpy as np

from . import coqfmt as F

KINDS = {"Input": "KInput", "Output": "KOutput", "Affine": "KAffine", "Linear": "KLinear",
         "Scale": "KScale", "Conv1d": "KConv1d", "Conv2d": "KConv2d", "SumPool2d": "KSumPool2d",
         "AvgPool2d": "KAvgPool2d", "Flatten": "KFlatten", "Delay": "KDelay",
         "Threshold": "KThreshold", "I": "KI", "IF": "KIF", "LI": "KLI", "LIF": "KLIF",
         "CubaLIF": "KCubaLIF", "NIRGraph": "KGraph"}


def gty(t) -> str:
    """graph-level input_type/output_type: None | {name: child type dict}"""
    if t is None:
        return "None"
    return "(Some " + F.clist([f"({F.cstr(k)}, {F.ty(v)})" for k, v in t.items()]) + ")"


def node_term(n) -> str:
    """A live NIR node -> Coq term of type node (what the implementation holds now)."""
    cname = type(n).__name__
    if cname not in KINDS and cname != "NIRGraph":
        # an instance of a user-defined subclass is an instance of the library class it derives from
        cname = next((k.__name__ for k in type(n).__mro__ if k.__name__ in KINDS or k.__name__ == "NIRGraph"), cname)
    if cname == "NIRGraph":
        ch = F.clist([f"({F.cstr(k)}, {node_term(c)})" for k, c in n.nodes.items()])
        es = F.clist([f"({F.cstr(a)}, {F.cstr(b)})" for a, b in n.edges])
        return f"(Graph {ch} {es} {gty(n.input_type)} {gty(n.output_type)} {F.pval(n.metadata)})"
    fields = []
    for f in dataclasses.fields(n):
        if f.name in ("input_type", "output_type"):
            continue
        fields.append(f"({F.cstr(f.name)}, {F.pval(getattr(n, f.name))})")
    return (f"(Leaf {KINDS[cname]} {F.clist(fields)} "
            f"{F.ty(getattr(n, 'input_type', None))} {F.ty(getattr(n, 'output_type', None))})")


def nexpr(r) -> str:
    """A recipe -> Coq term of type nexpr."""
    if r["k"] == "NIRGraph":
        # an alias (the same Python object registered under a second name) has the same content
        ch = F.clist([f"({F.cstr(k)}, {nexpr(r['nodes'][c['of']] if c['k'] == '__alias__' else c)})"
                      for k, c in r["nodes"].items()])
        es = F.clist([f"({F.cstr(a)}, {F.cstr(b)})" for a, b in r["edges"]])
        md = F.pval(r["metadata"]) if "metadata" in r else "(VDict [])"
        return f"(NGraph {ch} {es} {md})"
    args = F.clist([f"({F.cstr(k)}, {F.pval(v)})" for k, v in r["args"].items()])
    t = f"(NCons {KINDS[r['k']]} {args})"
    if "set_types" in r:
        from .values import mat_ty
        t = f"(NTyped {t} {F.ty(mat_ty(r['set_types']['in']))} {F.ty(mat_ty(r['set_types']['out']))})"
    return t


def result_term(ok: bool, term: str = "") -> str:
    return f"(Ok {term})" if ok else "(Err OtherError)"


def h5_term(item) -> str:
    """raw h5py object -> Coq term of type h5 (names, kinds, string encodings, dtypes, shapes, values)"""
    import h5py
    if isinstance(item, h5py.Group):
        ms = F.clist([f"({F.cstr(k)}, {h5_term(v)})" for k, v in item.items()])
        return f"(H5Group {ms})"
    info = h5py.check_string_dtype(item.dtype)
    if info is not None:
        enc = ("vlen" if info.length is None else "fixed") + "-" + info.encoding
        v = item[()]
        def txt(x):
            return x if isinstance(x, (bytes, str)) else bytes(x)
        if item.shape == ():
            return f"(H5Str {F.cstr(enc)} {F.cstr(txt(v))})"
        rows = np.asarray(v, dtype=object)
        if rows.ndim == 1:
            rows = rows.reshape(-1, 1)
        return f"(H5Strs {F.cstr(enc)} " + F.clist([F.clist([F.cstr(txt(x)) for x in r]) for r in rows.tolist()]) + ")"
    return f"(H5Data {F.pval(np.asarray(item[()]))})"


def ops_term(ops) -> str:
    m = {"infer": "OInfer", "dict": "ODict", "file": "OFile"}
    return F.clist([m[o] for o in ops])
