"""Random NIR graph recipes.

consistent_graph(): graphs built FORWARDS from Input nodes with an independent shape oracle
(plain Python integer arithmetic, no call into nir), so that the ground-truth types of every
node are known; optional erasure of the erasable annotations.
wild_graph(): arbitrary directed multigraphs over typed and untyped primitives for C10.
"""
import numpy as np

ELEMENTWISE = {"Scale": ["scale"], "Threshold": ["threshold"], "Delay": ["delay"], "I": ["r"],
               "IF": ["r", "v_threshold"], "LI": ["tau", "r", "v_leak"],
               "LIF": ["tau", "r", "v_leak", "v_threshold"],
               "CubaLIF": ["tau_syn", "tau_mem", "r", "v_leak", "v_threshold"]}


def _arr(rng, shape, dt="float32"):
    """small deterministic content derived from the PRNG"""
    a = np.arange(int(np.prod(shape)) if shape else 1, dtype="float64").reshape(shape) * 0.25 + rng.random()
    return a.astype(dt)


def positions(n, p, d, k, s):
    N, E = n + 2 * p, d * (k - 1) + 1
    c = 0
    i = 0
    while i * s + E <= N:
        c += 1
        i += 1
    return c


def hp_form(rng, vals):
    """scalar / tuple / list / ndarray form of per-axis values"""
    same = all(v == vals[0] for v in vals)
    f = rng.choice(["tuple", "list", "nd"] + (["int", "int"] if same else []))
    if f == "int":
        return int(vals[0])
    if f == "tuple":
        return tuple(int(v) for v in vals)
    if f == "list":
        return [int(v) for v in vals]
    return np.array(vals, dtype=rng.choice(["int64", "int32", "uint8", "int16"]))


def make_node(rng, in_shape, allow=None):
    """pick a primitive that can consume in_shape -> (recipe, out_shape, erasable kind or None)"""
    rank = len(in_shape)
    options = ["elementwise", "elementwise"]
    if rank >= 1:
        options += ["dense", "dense", "flatten"]
    if rank == 2:
        options += ["conv1d", "conv1d"]
    if rank == 3:
        options += ["conv2d", "conv2d", "pool", "pool"]
    if allow:
        options = [o for o in options if o in allow] or ["elementwise"]
    kind = rng.choice(options)
    if kind == "elementwise":
        cls = rng.choice(list(ELEMENTWISE))
        args = {p: _arr(rng, in_shape) for p in ELEMENTWISE[cls]}
        if cls == "CubaLIF" and rng.random() < 0.5:
            args["w_in"] = rng.choice([0.5, 2, np.float32(1.5)])
        return {"k": cls, "args": args}, list(in_shape), None
    if kind == "dense":
        cls = rng.choice(["Affine", "Linear"])
        m = rng.randint(1, 5)
        w = _arr(rng, list(in_shape[:-1]) + [m, in_shape[-1]])
        args = {"weight": w}
        if cls == "Affine":
            args["bias"] = _arr(rng, [m])
        return {"k": cls, "args": args}, list(in_shape[:-1]) + [m], None
    if kind == "flatten":
        n = rank
        a = rng.randrange(n)
        b = rng.randrange(a, n)
        s = a - n if rng.random() < 0.3 else a
        e = b - n if rng.random() < 0.4 else b
        prod = 1
        for x in in_shape[a:b + 1]:
            prod *= x
        out = list(in_shape[:a]) + [prod] + list(in_shape[b + 1:])
        return ({"k": "Flatten", "args": {"input_type": {"input": np.array(in_shape, dtype=np.int64)},
                                          "start_dim": s, "end_dim": e}}, out, "flatten")
    if kind in ("conv1d", "conv2d"):
        nd = 1 if kind == "conv1d" else 2
        sp = in_shape[1:]
        ks, ss, ps, ds = [], [], [], []
        for n in sp:
            for _ in range(20):
                k = rng.choice([1, 2, 3, 3, 5]); s = rng.choice([1, 1, 2, 3]); p = rng.choice([0, 0, 1, 2]); d = rng.choice([1, 1, 2])
                if d * (k - 1) + 1 <= n + 2 * p:
                    break
            else:
                k, s, p, d = 1, 1, 0, 1
            ks.append(k); ss.append(s); ps.append(p); ds.append(d)
        co = rng.randint(1, 4)
        pad = hp_form(rng, ps)
        r = rng.random()
        if r < 0.12:
            pad = "valid"; ps = [0] * nd
            ks = [min(k, (n - 1) // d + 1) for k, n, d in zip(ks, sp, ds)]
        elif r < 0.24:
            pad = "same"; ss = [1] * nd
        out_sp = list(sp) if isinstance(pad, str) and pad == "same" else [positions(n, p, d, k, s) for n, p, d, k, s in zip(sp, ps, ds, ks, ss)]
        # grouped / depthwise convolutions: weight has C_in/groups input channels.  (With an explicit input_shape the
        # constructor declares [C_in/groups, ...] as input type, which inference then overwrites with the
        # predecessor's [C_in, ...]; such nodes are marked "gconv" and are always generated ERASED.)
        g = 1
        if in_shape[0] > 1 and rng.random() < 0.2:
            g = rng.choice([d for d in range(2, in_shape[0] + 1) if in_shape[0] % d == 0])
            co = g * rng.randint(1, 2)
        w = _arr(rng, [co, in_shape[0] // g] + ks)
        tag = "conv" if g == 1 else "gconv"
        if nd == 1:
            args = {"input_shape": int(sp[0]), "weight": w, "stride": hp_form(rng, ss), "padding": pad,
                    "dilation": hp_form(rng, ds), "groups": g, "bias": _arr(rng, [co])}
            return {"k": "Conv1d", "args": args}, [co] + out_sp, tag
        args = {"input_shape": tuple(int(x) for x in sp), "weight": w, "stride": hp_form(rng, ss),
                "padding": pad, "dilation": hp_form(rng, ds), "groups": g, "bias": _arr(rng, [co])}
        return {"k": "Conv2d", "args": args}, [co] + out_sp, tag
    # pooling (2-d)
    sp = in_shape[1:]
    ks, ss, ps = [], [], []
    for n in sp:
        for _ in range(20):
            k = rng.choice([1, 2, 2, 3]); s = rng.choice([1, 2, 2, 3]); p = rng.choice([0, 0, 1])
            if k <= n + 2 * p:
                break
        else:
            k, s, p = 1, 1, 0
        ks.append(k); ss.append(s); ps.append(p)
    out_sp = [positions(n, p, 1, k, s) for n, p, k, s in zip(sp, ps, ks, ss)]
    cls = rng.choice(["SumPool2d", "AvgPool2d"])
    args = {"kernel_size": hp_form(rng, ks), "stride": hp_form(rng, ss), "padding": hp_form(rng, ps)}
    return {"k": cls, "args": args}, [in_shape[0]] + out_sp, "pool"


def consistent_graph(rng, max_nodes=12):
    """-> dict(recipe=..., truth={name: (in_shape, out_shape)}, erasable={name: kind})"""
    nodes, truth, erasable, edges = {}, {}, {}, []
    n_inputs = rng.choice([1, 1, 1, 2])
    frontier = []
    for i in range(n_inputs):
        style = rng.choice(["vec", "vec", "img", "img", "seq", "mat"])
        shape = {"vec": [rng.randint(1, 6)], "img": [rng.randint(1, 3), rng.randint(4, 12), rng.randint(4, 12)],
                 "seq": [rng.randint(1, 3), rng.randint(4, 16)], "mat": [rng.randint(1, 3), rng.randint(1, 4)]}[style]
        name = "input" if i == 0 else f"in{i}"
        form = rng.choice(["nd", "nd", "list", "tuple"])
        arg = np.array(shape, dtype=np.int64) if form == "nd" else list(shape) if form == "list" else tuple(shape)
        nodes[name] = {"k": "Input", "args": {"input_type": arg}}
        truth[name] = (shape, shape)
        frontier.append(name)
    total = rng.randint(1, max_nodes)
    idx = 0
    while idx < total:
        src = rng.choice(frontier)
        if rng.random() < 0.18:
            # an Output used as a mid-graph tap: it has an out-edge, the rest of the path is reachable only through it
            tap = f"tap_{idx}"
            nodes[tap] = {"k": "Output", "args": {"output_type": np.array(truth[src][1], dtype=np.int64)}}
            truth[tap] = (list(truth[src][1]), list(truth[src][1]))
            erasable[tap] = "output"
            edges.append((src, tap))
            src = tap
        rec, out, er = make_node(rng, truth[src][1])
        name = f"{rec['k'].lower()}_{idx}"
        nodes[name] = rec
        truth[name] = (list(truth[src][1]), out)
        if er:
            erasable[name] = er
        edges.append((src, name))
        frontier.append(name)
        idx += 1
    # outputs on some nodes without successors (and sometimes on inner nodes)
    has_succ = {a for a, _ in edges}
    k = 0
    for name in list(nodes):
        if nodes[name]["k"] in ("Input", "Output"):
            continue
        if (name not in has_succ and rng.random() < 0.8) or rng.random() < 0.05:
            on = "output" if k == 0 else f"out{k}"
            k += 1
            nodes[on] = {"k": "Output", "args": {"output_type": np.array(truth[name][1], dtype=np.int64)}}
            truth[on] = (list(truth[name][1]), list(truth[name][1]))
            erasable[on] = "output"
            edges.append((name, on))
    # extra edges between shape-compatible nodes: fan-in, residual, recurrent, self-loops, parallel
    names = [n for n in nodes if nodes[n]["k"] != "Input"]
    srcs = [n for n in nodes if nodes[n]["k"] != "Output" or n.startswith("tap_")]
    for _ in range(rng.choice([0, 0, 1, 2, 4])):
        a, b = rng.choice(srcs), rng.choice(names)
        if truth[a][1] == truth[b][0]:
            edges.append((a, b))
    if edges and rng.random() < 0.15:
        edges.append(rng.choice(edges))
    rng.shuffle(edges)
    # shuffle node insertion order
    order = list(nodes)
    if rng.random() < 0.5:
        rng.shuffle(order)
    nodes = {n: nodes[n] for n in order}
    cg = {"recipe": {"k": "NIRGraph", "nodes": nodes, "edges": edges}, "truth": truth, "erasable": erasable}
    return exotic_names(rng, cg)


def erase(rng, cg, subset=None, wrong_outputs=True):
    """Erase a subset of the erasable annotations (in place on a copy of the recipe)."""
    import copy
    r = copy.deepcopy(cg["recipe"])
    names = sorted(cg["erasable"])
    if subset is None:
        subset = [n for n in names if rng.random() < 0.6]
    subset = sorted(set(subset) | {n for n in names if cg["erasable"][n] == "gconv"})   # grouped convs: always erased
    done = []
    for n in subset:
        kind = cg["erasable"][n]
        a = r["nodes"][n]["args"]
        if kind in ("conv", "gconv"):
            a["input_shape"] = None
            done.append((n, "none"))
        elif kind == "flatten":
            a["input_type"] = None
            done.append((n, "none"))
        elif kind == "output":
            if wrong_outputs and rng.random() < 0.35:
                sh = list(cg["truth"][n][1])
                if sh and rng.random() < 0.7:
                    sh[rng.randrange(len(sh))] += 1
                else:
                    sh = sh + [2]
                a["output_type"] = np.array(sh, dtype=np.int64)
                done.append((n, "wrong"))
            else:
                a["output_type"] = None
                done.append((n, "none"))
    return r, done


def exotic_names(rng, x, p=0.25):
    """With probability p rename some nodes: names that contain dots, names of which one is the part before the last dot of
    another ('block' / 'block.0'), blanks, non-ASCII.  x is a recipe or a consistent_graph() result."""
    if rng.random() >= p:
        return x
    r = x["recipe"] if "recipe" in x else x
    names = list(r["nodes"])
    if len(names) < 2:
        return x
    m = {}
    a, b = rng.sample(names, 2)
    m[b] = a + rng.choice([".0", ".output", ".input", ".x.y"])       # b is now "a.<something>"
    if rng.random() < 0.5:
        # some nodes get a ONE-character name taken from the letters of another node's (e.g. an Input's) name
        donors = [n for n in names if len(n) >= 2]
        for n in names:
            if n not in m and n != a and donors and rng.random() < 0.4:
                ch = rng.choice(rng.choice(donors))
                if ch not in names and ch not in m.values():
                    m[n] = ch
    for n in names:
        if n not in m and n != a and rng.random() < 0.3:
            m[n] = rng.choice(["{} ", " {}", "{}.", ".{}", "{}\u00e9", "{}.{}", "{}{{0}}", "{{}}{}", "{}{{", "}}{}", "{}%s", "#{}"]).format(n, n)
    if len(set(m.values()) | (set(names) - set(m))) != len(names):
        return x
    f = lambda n: m.get(n, n)
    r["nodes"] = {f(k): v for k, v in r["nodes"].items()}
    r["edges"] = [(f(s), f(t)) for s, t in r["edges"]]
    if "recipe" in x:
        x["truth"] = {f(k): v for k, v in x["truth"].items()}
        x["erasable"] = {f(k): v for k, v in x["erasable"].items()}
    return x


def wild_graph(rng, max_nodes=10):
    """arbitrary topology over typed / untyped primitives, incl. inconsistent shapes, unreachable
    components, edges into Inputs and out of Outputs, nested graphs (rarely), dangling edges"""
    n = rng.randint(1, max_nodes)
    nodes = {}
    for i in range(n):
        r = rng.random()
        sh = [rng.choice([2, 3])] if rng.random() < 0.6 else [rng.choice([1, 2]), rng.choice([4, 5, 6]), rng.choice([4, 5])]
        if r < 0.2:
            nodes[f"i{i}"] = {"k": "Input", "args": {"input_type": np.array(sh, dtype=np.int64) if rng.random() > 0.12 else None}}
        elif r < 0.35:
            nodes[f"o{i}"] = {"k": "Output", "args": {"output_type": None if rng.random() < 0.5 else np.array(sh, dtype=np.int64)}}
        elif r < 0.55:
            cls = rng.choice(["Scale", "LIF", "Threshold", "IF"])
            nodes[f"e{i}"] = {"k": cls, "args": {p: _arr(rng, sh) for p in ELEMENTWISE[cls]}}
        elif r < 0.65:
            m, k = rng.choice([2, 3]), rng.choice([2, 3])
            nodes[f"a{i}"] = {"k": "Linear", "args": {"weight": _arr(rng, [m, k])}}
        elif r < 0.78:
            kk = rng.choice([1, 2, 3])
            nodes[f"c{i}"] = {"k": "Conv2d", "args": {
                "input_shape": None if rng.random() < 0.7 else (5, 5), "weight": _arr(rng, [2, rng.choice([1, 2]), kk, kk]),
                "stride": 1, "padding": rng.choice([0, 1, "same"]), "dilation": 1, "groups": 1, "bias": _arr(rng, [2])}}
        elif r < 0.86:
            nodes[f"p{i}"] = {"k": rng.choice(["SumPool2d", "AvgPool2d"]), "args": {
                "kernel_size": np.array([2, 2]), "stride": np.array([2, 2]), "padding": np.array([0, 0])}}
        elif r < 0.95:
            nodes[f"f{i}"] = {"k": "Flatten", "args": {"input_type": None if rng.random() < 0.7 else {"input": np.array(sh)},
                                                       "start_dim": rng.choice([0, 1, -1]), "end_dim": -1}}
        elif r < 0.98:
            nodes[f"d{i}"] = {"k": "Conv1d", "args": {
                "input_shape": None, "weight": _arr(rng, [2, 2, 2]), "stride": 1, "padding": 0, "dilation": 1,
                "groups": 1, "bias": _arr(rng, [2])}}
        else:
            nodes[f"g{i}"] = {"k": "NIRGraph", "nodes": {"input": {"k": "Input", "args": {"input_type": np.array(sh)}},
                                                        "output": {"k": "Output", "args": {"output_type": np.array(sh)}}},
                              "edges": [("input", "output")]}
    names = list(nodes)
    ne = rng.randint(0, min(3 * len(names), 24))
    edges = []
    for _ in range(ne):
        a, b = rng.choice(names), rng.choice(names)
        if rng.random() < 0.015:
            b = "ghost"
        edges.append((a, b))
        if rng.random() < 0.08:
            edges.append((a, b))
    return exotic_names(rng, {"k": "NIRGraph", "nodes": nodes, "edges": edges})
