"""Translate the closed forms of the reference simulators from the Python AST into Coq definitions over R.

  paper/01_lif/lif_exact_sim.py : ExactLIFNeuron.advance_by_delta_t / calc_next_spike_time / apply_reset
  paper/03_rnn/extras/debug_CubaLIF/nir_reference_impl.py : CubaLIFImplementation.forward

Fail-closed: any statement or expression outside the small fragment below aborts the translation (the check then
reports the obligation as broken and searches numerically for a failing input).
Fragment: local assignments, `self.state.v = e` / `self.v = e` / `self.I = e` (state updates), `x -= e`, `if c: ...
else: ...` whose branches end in `return`, `return e`, tuples; + - * / unary minus, comparisons, math.exp, math.log,
math.inf, `.copy()`, numeric literals (exact rationals), attribute reads of parameters and state.
"""
import ast
import os
from fractions import Fraction

ROOT = os.path.dirname(os.path.dirname(os.path.abspath(__file__)))
OUT = os.path.join(ROOT, "coq", "theories", "Gen", "LifFormulas.v")
REPO = os.environ.get("NIR_REPO", "/repo")
LIF_SRC = REPO + "/paper/01_lif/lif_exact_sim.py"
CUBA_SRC = REPO + "/paper/03_rnn/extras/debug_CubaLIF/nir_reference_impl.py"


class Unsupported(Exception):
    pass


def find_method(tree, cls, name):
    for n in tree.body:
        if isinstance(n, ast.ClassDef) and n.name == cls:
            for m in n.body:
                if isinstance(m, ast.FunctionDef) and m.name == name:
                    return m
    raise Unsupported(f"method {cls}.{name} not found")


class Tr:
    """translator for one method body"""

    def __init__(self, attr_map, bool_vars=()):
        self.attr_map = attr_map      # dotted attribute path -> Coq variable
        self.env = {}                 # local name -> Coq expression (substituted: straight-line code)
        self.bools = set(bool_vars)
        self.state = {}               # state attribute -> Coq expression (latest assignment)

    def dotted(self, node):
        if isinstance(node, ast.Name):
            return node.id
        if isinstance(node, ast.Attribute):
            return self.dotted(node.value) + "." + node.attr
        raise Unsupported(ast.dump(node))

    def lit(self, v):
        if isinstance(v, bool):
            raise Unsupported("bool literal")
        fr = Fraction(v)
        if fr.denominator == 1:
            return f"({fr.numerator})" if fr.numerator < 0 else str(fr.numerator)
        return f"({fr.numerator} / {fr.denominator})"

    def expr(self, e):
        """-> (coq term, is_bool)"""
        if isinstance(e, ast.Constant) and isinstance(e.value, (int, float)):
            return self.lit(e.value), False
        if isinstance(e, ast.Name):
            if e.id in self.env:
                return self.env[e.id]
            raise Unsupported(f"unknown name {e.id}")
        if isinstance(e, ast.Attribute):
            d = self.dotted(e)
            if d == "math.inf":
                raise Unsupported("math.inf outside a return")
            # alias expansion: p = self.params
            parts = d.split(".")
            if parts[0] in self.env and isinstance(self.env[parts[0]], str):
                d = self.env[parts[0]] + "." + ".".join(parts[1:])
            if d in self.state:
                return self.state[d]
            if d in self.attr_map:
                return self.attr_map[d], False
            raise Unsupported(f"unknown attribute {d}")
        if isinstance(e, ast.UnaryOp) and isinstance(e.op, ast.Not):
            t, b = self.expr(e.operand)
            if not b:
                raise Unsupported("not on a non-boolean")
            return f"(negb {t})", True
        if isinstance(e, ast.BoolOp) and isinstance(e.op, (ast.And, ast.Or)):
            parts = [self.expr(v) for v in e.values]
            if not all(b for _, b in parts):
                raise Unsupported("and/or on non-booleans")
            op = "&&" if isinstance(e.op, ast.And) else "||"
            return "(" + f" {op} ".join(t for t, _ in parts) + ")%bool", True
        if isinstance(e, ast.IfExp):
            c, cb = self.expr(e.test)
            a, ab = self.expr(e.body)
            b2, bb = self.expr(e.orelse)
            if not cb or ab != bb:
                raise Unsupported("conditional expression")
            return f"(if {c} then {a} else {b2})", ab
        if isinstance(e, ast.UnaryOp) and isinstance(e.op, ast.USub):
            t, b = self.expr(e.operand)
            return f"(- {self.num(t, b)})", False
        if isinstance(e, ast.BinOp):
            ops = {ast.Add: "+", ast.Sub: "-", ast.Mult: "*", ast.Div: "/"}
            if type(e.op) not in ops:
                raise Unsupported(ast.dump(e.op))
            l, lb = self.expr(e.left)
            r, rb = self.expr(e.right)
            return f"({self.num(l, lb)} {ops[type(e.op)]} {self.num(r, rb)})", False
        if isinstance(e, ast.Compare) and len(e.ops) == 1:
            l, lb = self.expr(e.left)
            r, rb = self.expr(e.comparators[0])
            l, r = self.num(l, lb), self.num(r, rb)
            dec = {ast.Gt: f"(Rgt_dec {l} {r})", ast.GtE: f"(Rge_dec {l} {r})", ast.Lt: f"(Rlt_dec {l} {r})",
                   ast.LtE: f"(Rle_dec {l} {r})", ast.Eq: f"(Req_EM_T {l} {r})"}
            if type(e.ops[0]) not in dec:
                raise Unsupported(ast.dump(e.ops[0]))
            return f"(if {dec[type(e.ops[0])]} then true else false)", True
        if isinstance(e, ast.Call):
            if isinstance(e.func, ast.Attribute) and e.func.attr == "copy" and not e.args:
                return self.expr(e.func.value)
            d = self.dotted(e.func)
            if d in ("math.exp", "math.log") and len(e.args) == 1:
                a, ab = self.expr(e.args[0])
                return f"({'exp' if d == 'math.exp' else 'ln'} {self.num(a, ab)})", False
            raise Unsupported(f"call {d}")
        raise Unsupported(ast.dump(e))

    def num(self, t, is_bool):
        return f"(if {t} then 1 else 0)" if is_bool else t

    def is_inf(self, e):
        return isinstance(e, ast.Attribute) and self.dotted(e) in ("math.inf", "np.inf")

    def block(self, stmts, ret_kind):
        """translate a statement list that ends by returning; -> Coq term"""
        if not stmts:
            return self.finish(ret_kind)
        s, rest = stmts[0], stmts[1:]
        if isinstance(s, ast.Expr) and isinstance(s.value, ast.Constant) and isinstance(s.value.value, str):
            return self.block(rest, ret_kind)          # docstring
        if isinstance(s, ast.Assign) and len(s.targets) == 1:
            tgt = s.targets[0]
            if isinstance(tgt, ast.Name):
                if isinstance(s.value, ast.Attribute) and self.dotted(s.value) in ("self.params", "self.node", "self.state"):
                    self.env[tgt.id] = self.dotted(s.value)       # alias
                else:
                    self.env[tgt.id] = self.expr(s.value)
                return self.block(rest, ret_kind)
            if isinstance(tgt, ast.Attribute):
                self.state[self.dotted(tgt)] = self.expr(s.value)
                return self.block(rest, ret_kind)
        if isinstance(s, ast.AugAssign) and isinstance(s.op, ast.Sub):
            tgt = s.target
            cur = self.expr(tgt)
            v, vb = self.expr(s.value)
            new = (f"({self.num(*cur)} - {self.num(v, vb)})", False)
            if isinstance(tgt, ast.Name):
                self.env[tgt.id] = new
            else:
                self.state[self.dotted(tgt)] = new
            return self.block(rest, ret_kind)
        if isinstance(s, ast.Return):
            return self.ret(s.value, ret_kind)
        if isinstance(s, ast.If):
            c, cb = self.expr(s.test)
            if not cb:
                raise Unsupported("non-boolean condition")
            saved = (dict(self.env), dict(self.state))
            a = self.block(s.body + rest, ret_kind)
            self.env, self.state = dict(saved[0]), dict(saved[1])
            b = self.block(s.orelse + rest, ret_kind)
            self.env, self.state = saved
            return f"(if {c} then {a} else {b})"
        raise Unsupported(ast.dump(s)[:200])

    def ret(self, v, ret_kind):
        if ret_kind == "optR":
            if self.is_inf(v):
                return "None"
            if isinstance(v, ast.IfExp):
                c, cb = self.expr(v.test)
                if not cb:
                    raise Unsupported("non-boolean condition")
                return f"(if {c} then {self.ret(v.body, ret_kind)} else {self.ret(v.orelse, ret_kind)})"
            t, b = self.expr(v)
            return f"(Some {self.num(t, b)})"
        if ret_kind == "tuple3":
            if not isinstance(v, ast.Tuple) or len(v.elts) != 3:
                raise Unsupported("expected a 3-tuple")
            parts = [self.expr(x) for x in v.elts]
            return "(" + ", ".join(p[0] for p in parts) + ")"
        raise Unsupported("unexpected return")

    def finish(self, ret_kind):
        if ret_kind.startswith("state:"):
            t, b = self.state[ret_kind[6:]]
            return self.num(t, b)
        raise Unsupported("function falls off the end")


def generate():
    lif = ast.parse(open(LIF_SRC).read())
    cuba = ast.parse(open(CUBA_SRC).read())
    out = ["(* GENERATED by harness/gen_lif.py from the Python AST of the paper scripts — do not edit *)",
           "From Coq Require Import Reals.", "Open Scope R_scope.", ""]
    pm = {"self.params.tau": "tau", "self.params.r": "r", "self.params.v_leak": "v_leak",
          "self.params.v_threshold": "v_threshold", "self.state.v": "v"}

    m = find_method(lif, "ExactLIFNeuron", "advance_by_delta_t")
    t = Tr(pm)
    t.env["i_input"] = ("i_input", False)
    t.env["delta_t"] = ("delta_t", False)
    body = t.block(m.body, "state:self.state.v")
    out.append("Definition advance (tau r v_leak v_threshold v i_input delta_t : R) : R :=\n  " + body + ".\n")

    m = find_method(lif, "ExactLIFNeuron", "calc_next_spike_time")
    t = Tr(pm)
    t.env["i_input"] = ("i_input", False)
    body = t.block(m.body, "optR")
    out.append("(* None = math.inf *)\nDefinition next_spike (tau r v_leak v_threshold v i_input : R) : option R :=\n  " + body + ".\n")

    m = find_method(lif, "ExactLIFNeuron", "apply_reset")
    t = Tr(pm)
    body = t.block(m.body, "state:self.state.v")
    out.append("Definition reset (tau r v_leak v_threshold v : R) : R :=\n  " + body + ".\n")

    cm = {"self.dt": "dt", "self.node.tau_syn": "tau_syn", "self.node.tau_mem": "tau_mem", "self.node.r": "r",
          "self.node.v_leak": "v_leak", "self.node.v_threshold": "v_threshold", "self.node.w_in": "w_in",
          "self.I": "I0", "self.v": "v0"}
    m = find_method(cuba, "CubaLIFImplementation", "forward")
    t = Tr(cm)
    t.env["x"] = ("x", False)
    body = t.block(m.body, "tuple3")
    out.append("(* one element of CubaLIFImplementation.forward: (spike, new v, new I) *)\n"
               "Definition cuba_step (dt tau_syn tau_mem r v_leak v_threshold w_in I0 v0 x : R) : bool * R * R :=\n  "
               + body + ".\n")
    return "\n".join(out)


def main():
    try:
        txt = generate()
    except Exception as e:
        # fail closed: never leave a stale translation of an older source in place
        with open(OUT, "w") as f:
            f.write(f"(* translation of the paper scripts FAILED CLOSED: {type(e).__name__}: {str(e)[:200]} *)\n")
        raise
    old = open(OUT).read() if os.path.exists(OUT) else None
    if old != txt:
        os.makedirs(os.path.dirname(OUT), exist_ok=True)
        with open(OUT, "w") as f:
            f.write(txt)
        print("LifFormulas.v regenerated (changed)")
    else:
        print("LifFormulas.v unchanged")


if __name__ == "__main__":
    main()
