"""Random graphs for the serialisation properties (C01-C04, C13-C18): all 17 primitives, nested
graphs, unicode names, arbitrary edge multisets, metadata trees, parameter arrays of all dtypes."""
import numpy as np

DTYPES = ["float16", "float32", "float64", "int8", "int16", "int32", "int64", "uint8", "uint16",
          "uint32", "uint64", "bool", "complex64", "complex128"]
# less common but legal element types: extended precision, non-native byte order
EXOTIC_DTYPES = [np.dtype("longdouble").name, np.dtype("clongdouble").name, ">f4", ">f8", ">i2", ">u4", ">c8", "q", "Q", "l", "L", "p", "b", "B",
                 "h", "e", "d", "g", "F", "D"]        # C type codes: 'q' / 'Q' are long long (same layout as int64, another scalar class)

NAME_POOL = ["a", "b", "lif", "input", "output", "type", "nodes", "edges", "metadata", "x y", "ünï", "日本",
             "é", "a.b", "n\n1", "Ω", "version", "node", "0", "..", "tab\t", "q" * 300, "UP", "w_in"]
BAD_NAMES = ["a/b", "/a", "a/", "a\x00b"]
# names with a special role somewhere between Python, numpy and HDF5: a leading byte order mark, non-canonical digit strings,
# words that are parameter / attribute / field names inside the library, "->" (used in messages), keywords
ODD_NAMES = ["\ufefflif", "lif\ufeff", "007", "7", "01", "1", "\u0663", "group", "name", "value", "self", "item", "filename", "graph",
             "node_dict", "k", "v", "key", "data", "dtype", "shape", "input_type", "output_type", "inputs", "outputs", "a->b", "b->c",
             "b->c->d", "->", "None", "True", "#1", "#a", "#refs#", "{}", "conv{0}", "x{", "}", "{name}", "class", "__class__", "__dict__", "from_dict", "to_dict", "%s", "{}", "{0}", "\\"]
ELEMENTWISE = {"Scale": ["scale"], "Threshold": ["threshold"], "Delay": ["delay"], "I": ["r"],
               "IF": ["r", "v_threshold"], "LI": ["tau", "r", "v_leak"],
               "LIF": ["tau", "r", "v_leak", "v_threshold"],
               "CubaLIF": ["tau_syn", "tau_mem", "r", "v_leak", "v_threshold"]}
SPECIAL_F = [float("nan"), -0.0, 0.0, float("inf"), -float("inf"), 5e-324, 1.0, -2.5]


def rand_array(rng, shape, dt=None):
    dt = dt or (rng.choice(EXOTIC_DTYPES) if rng.random() < 0.06 else rng.choice(DTYPES))
    n = int(np.prod(shape)) if len(shape) else 1
    d = np.dtype(dt)
    if d.kind == "f":
        vals = [rng.choice(SPECIAL_F) if rng.random() < 0.3 else rng.uniform(-3, 3) for _ in range(n)]
        a = np.array(vals, dtype="float64").astype(d)
    elif d.kind == "c":
        a = np.array([complex(rng.choice(SPECIAL_F), rng.uniform(-1, 1)) for _ in range(n)]).astype(d)
    elif d.kind == "b":
        a = np.array([rng.random() < 0.5 for _ in range(n)])
    else:
        info = np.iinfo(d)
        a = np.array([rng.choice([info.min, info.max, 0, 1, rng.randint(max(info.min, -99), min(info.max, 99))])
                      for _ in range(n)], dtype=d)
    if d.kind == "f" and n >= 2 and rng.random() < 0.04:
        a = np.array([(-0.0 if i % 2 == 0 else 0.0) for i in range(n)], dtype=d)     # constant under ==, not bitwise
    if d.kind in "fc" and d.itemsize // (2 if d.kind == "c" else 1) > 8:
        with np.errstate(all="ignore"):
            a = a / d.type(3)       # values a double cannot hold
    a = a.reshape(shape)
    if rng.random() < 0.04 and a.size:
        a = a.copy()
        a.setflags(write=False)     # a frozen parameter (still the graph's own array: a copy must not alias it)
        return a
    lay = rng.random()
    if a.ndim >= 2 and lay < 0.15:
        a = np.asfortranarray(a)
    elif a.ndim >= 1 and lay < 0.3 and a.shape[0] > 0:
        big = np.repeat(a, 2, axis=0)
        big[::2] = a
        a = big[::2]          # strided view with the same content
    elif a.ndim >= 2 and lay < 0.4:
        a = np.ascontiguousarray(a.T).T   # transposed view
    elif a.ndim >= 3 and lay < 0.55:
        a = np.moveaxis(np.ascontiguousarray(np.moveaxis(a, 0, -1)), -1, 0)   # cyclically permuted view (not self-inverse)
    elif a.ndim >= 1 and a.size > 1 and lay < 0.6:
        a = np.broadcast_to(a.reshape(-1)[:1].reshape([1] * a.ndim), a.shape)  # uniform parameter as a zero-stride view
    return a


def rand_shape(rng, maxrank=3):
    return [rng.choice([1, 2, 3]) for _ in range(rng.choice(list(range(0, maxrank + 1))))]


def rand_meta(rng, depth):
    if rng.random() < 0.55:
        return None
    def tree(d):
        out = {}
        for _ in range(rng.randint(0, 3)):
            k = rng.choice(["k", "note", "ünï", "α β", "n", "arr", "f", "sub", "type", "q" * 40, "x.y", "rate%2Fhz", "50%2F50", "%", "%25", "2024-03-01",
                            "group", "name", "value", "self", "key", "data", "dtype", "\ufeffk", "k\ufeff", "a->b", "#tag", "..", "{0}", "input_type",
                            "output_type", "weight", "shape", "nodes", "edges",
                            # key spellings a "private / reserved" convention might single out
                            "_origin", "_", "__dict__", "__class__", "_k", "k_", "-k", "~k", "$ref", "@id", "!tag", "k!", "K", "TYPE", "Type"])
            r = rng.random()
            if r < 0.2:
                out[k] = rng.choice(["", "text", "日本語", "a\nb", "same", "hidden layer ", " ", "    ", " lead", "tab\t", "trail \n",
                                     "nbsp\u00a0", "caf\u0065\u0301", "\u2126 ohm",
                                 # text that LOOKS like another kind of value (dates, numbers, booleans, escapes)
                                 "2024-03-01", "20240301", "2024-03-01T12:30:00+00:00", "12:30", "1e5", "nan", "True", "None", "0x10",
                                 "1_000", "[1, 2]", "{}", "%2F", "a%2Fb", "\\n", "b'x'",
                                 "\ufeffexported", "\ufeff", "mid\ufeffdle", "Linear", "Scale", "NIRGraph", "LIF"])
            elif r < 0.35:
                out[k] = rng.choice([0, 1, -7, 2 ** 40, 2 ** 63 - 1, 2 ** 63, 2 ** 64 - 1, -2 ** 63])
            elif r < 0.5:
                out[k] = rng.choice(SPECIAL_F)
            elif r < 0.6:
                out[k] = rng.random() < 0.5
            elif r < 0.8:
                out[k] = rand_array(rng, rand_shape(rng, 2))
            elif d > 0:
                out[k] = tree(d - 1)
            else:
                out[k] = {}
        if rng.random() < 0.06:
            # a dictionary that LOOKS like a serialised node
            out[rng.choice(["converted_from", "origin", "k"])] = rng.choice([
                {"type": "Linear", "source": "torch.nn.Linear"}, {"type": "Scale", "scale": np.ones(2, dtype="float32")},
                {"type": "NIRGraph", "nodes": {}, "edges": []}, {"type": "Input", "shape": np.array([2])}])
        return out
    return tree(depth)


def hp(rng, vals):
    same = all(v == vals[0] for v in vals)
    f = rng.choice(["tuple", "list", "nd"] + (["int", "npint"] if same else []))
    if f == "int":
        return int(vals[0])
    if f == "npint":
        return np.int32(vals[0])
    if f == "tuple":
        return tuple(int(v) for v in vals)
    if f == "list":
        return [int(v) for v in vals]
    return np.array(vals, dtype=rng.choice(["int64", "int32", "uint8"]))


def rand_leaf(rng):
    kind = rng.choice(["Input", "Output", "Affine", "Linear", "Scale", "Conv1d", "Conv2d", "SumPool2d", "AvgPool2d",
                       "Flatten", "Delay", "Threshold", "I", "IF", "LI", "LIF", "CubaLIF"])
    md = rand_meta(rng, rng.choice([0, 1, 2, 4]))
    if kind in ELEMENTWISE:
        sh = rand_shape(rng)
        dt = rng.choice(DTYPES)
        args = {p: rand_array(rng, sh, dt if rng.random() < 0.7 else None) for p in ELEMENTWISE[kind]}
        if kind == "CubaLIF":
            r = rng.random()
            if r < 0.3:
                args["w_in"] = rng.choice([0.5, 3, np.float32(2.0)])
            elif r < 0.6:
                args["w_in"] = rand_array(rng, sh, rng.choice(["float32", "float64", "int16"]))
    elif kind in ("Affine", "Linear"):
        sh = rand_shape(rng, 2) + [rng.randint(1, 3), rng.randint(1, 3)]
        args = {"weight": rand_array(rng, sh)}
        if kind == "Affine":
            args["bias"] = rand_array(rng, [sh[-2]])
    elif kind in ("Input", "Output"):
        sh = [rng.randint(1, 5) for _ in range(rng.choice([0, 1, 1, 2, 3]))]
        form = rng.choice(["nd", "nd", "list", "tuple", "nd32"])
        v = {"nd": np.array(sh, dtype=np.int64), "list": list(sh), "tuple": tuple(sh), "nd32": np.array(sh, dtype=np.int32)}[form]
        if not sh and form in ("nd", "nd32"):
            v = np.array([], dtype=np.int64)
        if rng.random() < 0.04:
            v = None      # an undefined port shape: the file form cannot carry it (write must reject the graph, not lose the member)
        args = {"input_type" if kind == "Input" else "output_type": v}
    elif kind == "Conv1d":
        k = rng.choice([1, 2, 3]); n = rng.randint(k + 1, 9)
        args = {"input_shape": rng.choice([n, np.int64(n)]), "weight": rand_array(rng, [rng.randint(1, 2), rng.randint(1, 2), k]),
                "stride": hp(rng, [rng.choice([1, 2])]), "padding": rng.choice([0, 1, (1,), "same", "valid", np.array([2])]),
                "dilation": hp(rng, [1]), "groups": 1, "bias": rand_array(rng, rng.choice([[2], [2], [2, 1], [2, 1, 1], [1, 2]]))}
    elif kind == "Conv2d":
        k1, k2 = rng.choice([1, 2, 3]), rng.choice([1, 2, 3])
        n = (rng.randint(4, 9), rng.randint(4, 9))
        args = {"input_shape": rng.choice([n, list(n), np.array(n)]), "weight": rand_array(rng, [2, rng.randint(1, 2), k1, k2]),
                "stride": hp(rng, [rng.choice([1, 2])] * 2 if rng.random() < 0.5 else [1, 2]),
                "padding": rng.choice([0, 1, (1, 0), [0, 1], "same", "valid", np.array([1, 1])]),
                "dilation": hp(rng, [1, 1]), "groups": 1, "bias": rand_array(rng, rng.choice([[2], [2], [2, 1], [2, 1, 1], [1, 2]]))}
    elif kind in ("SumPool2d", "AvgPool2d"):
        args = {"kernel_size": hp(rng, [2, rng.choice([2, 3])]), "stride": hp(rng, [2, 2]), "padding": hp(rng, [0, rng.choice([0, 1])])}
        if rng.random() < 0.5:
            args = {k: (np.array(v) if not isinstance(v, np.ndarray) else v) for k, v in args.items()}
    else:  # Flatten
        sh = [rng.randint(1, 4) for _ in range(rng.randint(1, 4))]
        if rng.random() < 0.35:      # extents whose product leaves the range of a narrow integer dtype
            sh = [rng.choice([8, 16, 12, 4, 32]) for _ in range(rng.randint(2, 3))]
        a = rng.randrange(len(sh)); b = rng.randrange(a, len(sh))
        form = rng.choice(["dict", "nd", "list", "tuple"])
        if rng.random() < 0.06:      # the DEFINED empty shape (a rank-0 signal)
            sh, a, b, form = [], 0, -1, rng.choice(["nd", "dict"])
        it = {"dict": {"input": np.array(sh, dtype=np.int64)}, "nd": np.array(sh, dtype=np.int64), "list": list(sh), "tuple": tuple(sh)}[form]
        args = {"input_type": it, "start_dim": rng.choice([a, a - len(sh)]) if sh else 0, "end_dim": rng.choice([b, b - len(sh)]) if sh else -1}
        if rng.random() < 0.3:
            args.pop("start_dim")
    if md is not None:
        args["metadata"] = md
    return {"k": kind, "args": args}


def serial_graph(rng, depth=2, max_nodes=7, bad_names=False, shared=False):
    names = NAME_POOL[:]
    rng.shuffle(names)
    if rng.random() < 0.35:
        odd = ODD_NAMES[:]
        rng.shuffle(odd)
        names += odd[:rng.randint(1, 4)]       # popped first
    if rng.random() < 0.25:
        names.append(rng.choice(["lif ", " ", "sub .ü  ", " lead"]))    # popped first
    n = rng.randint(0, max_nodes)
    nodes = {}
    for _ in range(n):
        nm = names.pop() if names else f"n{len(nodes)}"
        if bad_names and rng.random() < 0.3:
            nm = rng.choice(BAD_NAMES)
        if depth > 0 and rng.random() < 0.15:
            nodes[nm] = serial_graph(rng, depth - 1, max_nodes=3)
        else:
            nodes[nm] = rand_leaf(rng)
    if rng.random() < 0.12:
        # several nodes whose (large, constant or patterned) parameters have the same dtype and the same BYTES but other shapes,
        # and twins of equal shape and bytes but another dtype
        dt = rng.choice(["float32", "float64", "int64", "uint8"])
        n = rng.choice([256, 512, 1024])
        base = {"zeros": np.zeros(n), "ones": np.ones(n), "arange": np.arange(n) % 7}[rng.choice(["zeros", "ones", "arange"])].astype(dt)
        nodes[(names.pop() if names else "twinA")] = {"k": "Linear", "args": {"weight": base.reshape(16, n // 16).copy()}}
        nodes[(names.pop() if names else "twinB")] = {"k": rng.choice(["LI", "Scale", "Threshold"]), "args": None}
        kB = list(nodes)[-1]
        clsB = nodes[kB]["k"]
        nodes[kB]["args"] = {p: base.reshape(n).copy() for p in ELEMENTWISE[clsB]}
        if rng.random() < 0.5:
            other = {"float32": "int32", "float64": "int64", "int64": "float64", "uint8": "bool"}[dt]
            nodes[(names.pop() if names else "twinC")] = {"k": "Scale", "args": {"scale": np.zeros(n, dtype=other) if base.any() == 0 else base.view(other).copy() if np.dtype(other).itemsize == np.dtype(dt).itemsize else np.zeros(n, dtype=other)}}
    if shared and nodes and rng.random() < 0.5:
        src = rng.choice(list(nodes))
        if nodes[src]["k"] != "__alias__":
            nodes[(names.pop() if names else "tied") + "~"] = {"k": "__alias__", "of": src}
    keys = list(nodes)
    edges = []
    for _ in range(rng.randint(0, 2 * len(keys) + 1)):
        if not keys:
            break
        a, b = rng.choice(keys), rng.choice(keys)
        r = rng.random()
        if r < 0.08:
            b = "ghost"
        elif r < 0.16:
            b = b + ".input"
        edges.append((a, b))
        if rng.random() < 0.1:
            edges.append((a, b))
    for k in keys:                      # names with leading / trailing blanks must occur as edge endpoints
        if k != k.strip() and rng.random() < 0.7:
            edges.append((k, rng.choice(keys)))
            edges.append((rng.choice(keys), k))
    g = {"k": "NIRGraph", "nodes": nodes, "edges": edges}
    if edges and rng.random() < 0.15:
        g["edge_lists"] = True          # edges given as 2-element LISTS (e.g. loaded from JSON): mutable pairs
    md = rand_meta(rng, 2)
    if md is not None:
        g["metadata"] = md
    return g
