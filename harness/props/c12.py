"""C12 — Graph-level interface always mirrors its Input and Output nodes."""
import io

import numpy as np

from .. import graphgen as G
from .. import values as V
from .common import Outcome, cinfer, cinfer_frame, quiet, time_limit, try_build, Timeout

ID = "C12"
COQ_IMPORT = "Corr.CNodes"
COQ_CASE_TYPE = "g_case"
COQ_CHECK = "g_check"
THEOREMS = ["c12_inputs", "c12_outputs", "c12_input_type", "c12_output_type", "c12_after_construction", "c12_after_infer", "c12_after_from_list", "c12_after_from_dict", "c12_after_read", "c12_invariant"]
PROOF_FILES = ["Proofs/MirrorClosedProofs.v"]
RULE = ("graphs with 0..4 Input and 0..4 Output children under arbitrary (non-alphabetical, unicode) names and "
        "distinct shapes, nesting depth 0..3, incl. Inputs that are edge targets, erased/wrong Output shapes and "
        "nested graphs that make inference raise part-way; random histories of length 0..6 over {from_dict(to_dict), "
        "read(write), infer_types, infer_types on a sub-graph}; after EVERY step inputs/outputs/input_type/output_type "
        "are compared with a scan of .nodes at every depth. distinct = (recipe, history); non-trivial = >= 2 ports "
        "of one kind or a history containing infer_types")
ASSUMPTIONS = ["graph.input_type is None (not {}) when there is no Input child: read as the empty mapping"]

NAMES = ["zeta", "alpha", "input", "output", "in", "Out", "retina", "audio", "x", "ünï", "a.b", "9", "m m"]
# child names that coincide with attribute / field / method names of the graph object itself
FIELD_NAMES = ["input_type", "output_type", "inputs", "outputs", "metadata", "edges", "to_dict", "infer_types", "__dict__", "type"]


def port_graph(rng, depth):
    """a graph with several ports; children may be nested graphs"""
    names = NAMES[:]
    rng.shuffle(names)
    if rng.random() < 0.2:
        names += rng.sample(FIELD_NAMES, rng.randint(1, 3))      # popped first
    nodes, edges = {}, []
    n_in, n_out = rng.choice([0, 1, 1, 2, 3, 4]), rng.choice([0, 1, 1, 2, 3, 4])
    shapes = []
    for _ in range(n_in):
        nm = names.pop()
        sh = [rng.randint(1, 6) for _ in range(rng.choice([1, 1, 2]))]
        if rng.random() < 0.12:      # large axes: a wrong Output shape is then off by a tiny RELATIVE amount
            sh[-1] = rng.choice([100000, 200000, 480000, 1 << 20])
        arr = np.array(sh, dtype=np.int64)
        if len(sh) == 1 and rng.random() < 0.15:
            arr = np.array(sh[0], dtype=np.int64)       # a 0-d shape "array" (h5py hands it back as a numpy scalar)
        nodes[nm] = {"k": "Input", "args": {"input_type": arr}}
        shapes.append((nm, sh))
    mids = []
    for i in range(rng.choice([0, 1, 2, 3])):
        nm = names.pop()
        if depth > 0 and rng.random() < 0.3:
            nodes[nm] = port_graph(rng, depth - 1)
            mids.append((nm, None))
        else:
            src = rng.choice(shapes)[1] if shapes else [2]
            nodes[nm] = {"k": "Scale", "args": {"scale": np.ones(src, dtype="float32")}}
            mids.append((nm, src))
    outs = []
    for _ in range(n_out):
        nm = names.pop()
        sh = rng.choice(shapes)[1] if shapes and rng.random() < 0.7 else [rng.randint(1, 6)]
        r = rng.random()
        wrong = [x + 1 for x in sh]
        if max(sh) >= 100000:
            wrong = [x + rng.choice([1, 2, -1]) if x >= 100000 else x for x in sh]
        arg = None if r < 0.3 else np.array(wrong, dtype=np.int64) if r < 0.5 else np.array(sh, dtype=np.int64)
        if arg is not None and rng.random() < 0.12:
            # a legal multi-entry types dictionary: whatever inference does to the child, the graph must advertise the same
            arg = {"output": arg, "aux": np.array([7], dtype=np.int64)}
        nodes[nm] = {"k": "Output", "args": {"output_type": arg}}
        outs.append(nm)
    allnames = list(nodes)
    for _ in range(rng.randint(0, 2 * len(allnames))):
        if not allnames:
            break
        a, b = rng.choice(allnames), rng.choice(allnames)
        edges.append((a, b))
    # make sure some Input -> ... -> Output paths exist
    for nm, sh in shapes:
        if mids and rng.random() < 0.7:
            edges.append((nm, rng.choice(mids)[0]))
        if outs and rng.random() < 0.7:
            edges.append((nm, rng.choice(outs)))
    for m, _ in mids:
        if outs and rng.random() < 0.6:
            edges.append((m, rng.choice(outs)))
    rng.shuffle(edges)
    ports = [k for k, v in nodes.items() if v["k"] in ("Input", "Output")]
    if ports and names and rng.random() < 0.15:
        # ONE Input / Output object registered under a second name as well: two children, two ports
        nodes[names.pop()] = {"k": "__alias__", "of": rng.choice(ports)}
    return {"k": "NIRGraph", "nodes": nodes, "edges": edges}


def gen(rng, tier):
    cases = []
    N = 220 if tier == "quick" else 2500
    ops = ["dict", "file", "infer", "infer", "subinfer", "faildict", "failwrite"]
    for _ in range(N):
        r = rng.random()
        if r < 0.6:
            rec = port_graph(rng, rng.choice([0, 0, 1, 2, 3]))
        elif r < 0.85:
            cg = G.consistent_graph(rng, max_nodes=6)
            rec, _ = G.erase(rng, cg)
        else:
            rec = G.wild_graph(rng, 6)
        if rng.random() < 0.08:
            # a graph whose ONLY child is another graph and that has no ports of its own (a wrapper): it advertises nothing
            rec = {"k": "NIRGraph", "nodes": {rng.choice(["model", "net", "m"]): port_graph(rng, rng.choice([0, 1]))}, "edges": []}
        hist = [rng.choice(ops) for _ in range(rng.choice([0, 1, 1, 2, 3, 6]))]
        cases.append({"kind": "hist", "recipe": V.enc_recipe(rec), "hist": hist})
    # graphs created by from_list (the auto-inserted Input/Output must be mirrored as well)
    from . import c11
    for _ in range(N // 6):
        L = rng.choice([1, 2, 3, 5])
        seq = [rng.choice(["Affine", "Linear", "Scale", "LIF", "IF", "CubaLIF", "Flatten", "Conv1d", "SumPool2d"]) for _ in range(L)]
        if rng.random() < 0.3:
            seq[0] = "Input"
        if rng.random() < 0.3 and L > 1:
            seq[-1] = "Output"
        cases.append({"kind": "fromlist", "recipes": [V.enc_recipe(c11.leaf(rng, c)) for c in seq],
                      "hist": [rng.choice(ops) for _ in range(rng.choice([0, 1, 2]))],
                      # from_list applied to a graph that from_list built: the end points then carry the inner graph's type
                      # DICTIONARIES as their port types (a dictionary-valued entry), which must be mirrored like any other
                      "nest": rng.choice([0, 0, 0, 1, 1, 2])})
    return cases


def same_type(a, b):
    if a is None or b is None:
        return a is b
    if not isinstance(a, dict) or not isinstance(b, dict) or list(a.keys()) != list(b.keys()):
        return False
    for k in a:
        x, y = a[k], b[k]
        if x is None or y is None:
            if x is not y:
                return False
        elif isinstance(x, dict) or isinstance(y, dict):
            # a dictionary-valued entry (the end points of from_list(graph) carry the inner graph's type dictionaries)
            if not same_type(x, y):
                return False
        elif np.asarray(x).dtype.kind == "O" or np.asarray(y).dtype.kind == "O":
            return False
        elif not (np.asarray(x).shape == np.asarray(y).shape and np.array_equal(np.asarray(x), np.asarray(y))):
            return False
    return True


def scan(g, path="root"):
    """the property, evaluated by a scan of g.nodes at every depth -> None or description"""
    ins = {k: n for k, n in g.nodes.items() if type(n).__name__ == "Input"}
    outs = {k: n for k, n in g.nodes.items() if type(n).__name__ == "Output"}
    gi, go = g.inputs, g.outputs
    if list(gi.keys()) != list(ins.keys()) or any(gi[k] is not ins[k] for k in ins):
        return f"{path}.inputs {list(gi)} != Input children {list(ins)}"
    if list(go.keys()) != list(outs.keys()) or any(go[k] is not outs[k] for k in outs):
        return f"{path}.outputs {list(go)} != Output children {list(outs)}"
    it = g.input_type if g.input_type is not None else {}
    ot = g.output_type if g.output_type is not None else {}
    if not isinstance(it, dict) or set(it.keys()) != set(ins.keys()):
        return f"{path}.input_type keys {list(it) if isinstance(it, dict) else it} != Input children {list(ins)}"
    if not isinstance(ot, dict) or set(ot.keys()) != set(outs.keys()):
        return f"{path}.output_type keys {list(ot) if isinstance(ot, dict) else ot} != Output children {list(outs)}"
    for k, n in ins.items():
        if not same_type(it[k], n.input_type):
            return f"{path}.input_type[{k!r}] = {it[k]} but the child's current input_type is {n.input_type}"
    for k, n in outs.items():
        if not same_type(ot[k], n.output_type):
            return f"{path}.output_type[{k!r}] = {ot[k]} but the child's current output_type is {n.output_type}"
    for k, n in g.nodes.items():
        if type(n).__name__ == "NIRGraph":
            d = scan(n, f"{path}.{k}")
            if d:
                return d
    return None


def rng_pick(xs, i):
    return xs[i % len(xs)]


def subgraphs(g):
    return [n for n in g.nodes.values() if type(n).__name__ == "NIRGraph"]


def run(c):
    import nir
    if c["kind"] == "fromlist":
        sig = repr((c["recipes"], c["hist"], c.get("nest", 0)))
        try:
            with quiet():
                g = nir.NIRGraph.from_list(*[V.build(V.dec_recipe(x)) for x in c["recipes"]])
                for _ in range(c.get("nest", 0)):
                    g = nir.NIRGraph.from_list(g)
        except BaseException:  # noqa: BLE001
            return Outcome(None, None, False, sig)
        r, b = None, ("ok", g)
    else:
        r = V.dec_recipe(c["recipe"])
        b = try_build(r)
        sig = repr((c["recipe"], c["hist"]))
        if b[0] != "ok":
            return Outcome(None, None, False, sig)
        g = b[1]
    fail = scan(g)
    if fail:
        fail = "after construction: " + fail
    raised_last = False
    raised_any = False
    done = []
    with time_limit(30):
        for op in c["hist"]:
            if fail:
                break
            try:
                with quiet():
                    if op == "dict":
                        g = nir.NIRGraph.from_dict(g.to_dict())
                    elif op == "file":
                        bio = io.BytesIO()
                        nir.write(bio, g)
                        g = nir.read(bio)
                    elif op == "infer":
                        raised_last = False
                        try:
                            g.infer_types()
                        except Timeout:
                            raise
                        except BaseException:  # noqa: BLE001
                            raised_last = True
                            raised_any = True
                    elif op in ("faildict", "failwrite"):
                        # a serialisation that FAILS (metadata that cannot be copied / stored), on the graph itself or on a
                        # nested graph; afterwards the graph is used on
                        import threading
                        tgt = rng_pick(subgraphs(g) + [g], len(done))
                        tgt.metadata["__lock"] = threading.Lock()
                        try:
                            if op == "faildict":
                                g.to_dict()
                            else:
                                nir.write(io.BytesIO(), g)
                        except Timeout:
                            raise
                        except BaseException:  # noqa: BLE001
                            pass
                        finally:
                            tgt.metadata.pop("__lock", None)
                    elif op == "subinfer":
                        for sg in subgraphs(g):
                            try:
                                sg.infer_types()
                            except Timeout:
                                raise
                            except BaseException:  # noqa: BLE001
                                pass
            except Timeout:
                raise
            except BaseException:  # noqa: BLE001
                break   # the graph is not writable / not representable: history ends here
            done.append(op)
            f = scan(g)
            if f:
                fail = f"after {done}: {f}"
    coq = None
    import json as _json
    if r is None or fail or "__alias__" in _json.dumps(c.get("recipe", "")):
        pass        # (after an oracle failure the object may not even be expressible as a model term; one node OBJECT under two
                    #  names is not expressible in the immutable model either — inference mutates both at once — oracle only)
    elif c["hist"] and all(o == "infer" for o in c["hist"]) and len(c["hist"]) <= 2 and done == c["hist"]:
        try:
            coq = cinfer_frame(r, ("ok", g, raised_last, None), twice=len(c["hist"]) == 2, raised_any=raised_any)
        except TypeError as e:
            fail = f"after {done}: the graph holds a value where a plain field value belongs: {e}"
    elif not c["hist"]:
        from .common import cbuild
        try:
            coq = cbuild(r, b)
        except TypeError as e:
            fail = f"after construction: the graph holds a value where a plain field value belongs: {e}"
    nontriv = "infer" in c["hist"] or r is None or sum(1 for n in r["nodes"].values() if n["k"] in ("Input",)) >= 2
    return Outcome(coq, fail, nontriv, sig)
