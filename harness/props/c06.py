"""C06 — Convolution and pooling output shapes are arithmetically exact."""
import numpy as np

from .. import coqfmt as F
from .. import values as V
from .common import (Outcome, cbuild, cinfer, ints_or_none, res_list, run_infer, try_build, tval)

ID = "C06"
COQ_IMPORT = "Corr.C06"
COQ_CASE_TYPE = "c06_case"
COQ_CHECK = "c06_check"
THEOREMS = ["c06_formula_counts_positions", "c06_last_position_fits", "c06_unique",
            "c06_valid_is_zero_padding", "c06_same_keeps_size", "c06_same_agrees_with_formula",
            "c06_forms_seq_arr", "c06_forms_scalar", "c06_conv2d_types", "c06_conv1d_types",
            "c06_per_axis", "c06_infer_pool"]
PROOF_FILES = ["Proofs/ShapesProofs.v", "Proofs/NodesProofs.v"]
RULE = ("per axis n in [1,300] + boundary values (incl. > 2^53 and 8-bit limits), k in [1,11], s in [1,7], "
        "p in [0,8], d in [1,5], filtered by 'kernel fits at least once'; 1-d and 2-d, square and non-square; "
        "each hyper-parameter independently as int / tuple / list / ndarray of a random integer dtype / numpy "
        "scalar; strings 'same'/'valid'; entry points calculate_conv_output, Conv1d/Conv2d construction, "
        "infer_types on Input->Conv(None)->Output(None) and Input->Sum/AvgPool2d->Output(None). "
        "distinct = distinct parameter tuples incl. forms; non-trivial = 2-d with non-square kernel or "
        "stride/padding/dilation not all 1/0/1, or a non-int form")
ASSUMPTIONS = ["groups = 1", "numpy integer scalars convert exactly to Python ints (.item())"]

INT_DTYPES = ["int8", "int16", "int32", "int64", "uint8", "uint16", "uint32", "uint64"]


def form_of(rng, vals, ndim):
    """Encode per-axis integer values in a random admissible form (JSON-able description)."""
    same = all(v == vals[0] for v in vals)
    forms = ["tuple", "list", "nd"]
    if same:
        forms += ["int", "int", "npint"]
    f = rng.choice(forms)
    if f in ("nd", "npint"):
        ok = [d for d in INT_DTYPES if all(np.iinfo(d).min <= v <= np.iinfo(d).max for v in vals)]
        return {"f": f, "v": list(vals), "dt": rng.choice(ok)}
    return {"f": f, "v": list(vals)}


def seq_form(rng, vals):
    fd = form_of(rng, vals, len(vals))
    while fd["f"] in ("int", "npint"):
        fd = form_of(rng, vals, len(vals))
    return fd


def mat(fd):
    if isinstance(fd, str):
        return "".join(list(fd))      # a string built at run time: equal to, but not the same object as, the literal
    f, v = fd["f"], fd["v"]
    if f == "int":
        return int(v[0])
    if f == "npint":
        return np.dtype(fd["dt"]).type(v[0])
    if f == "tuple":
        return tuple(int(x) for x in v)
    if f == "list":
        return [int(x) for x in v]
    return np.array(v, dtype=fd["dt"])


def count_positions(n, p, d, k, s):
    """brute force, Python ints: number of i >= 0 with i*s + d*(k-1) + 1 <= n + 2p"""
    N, E = n + 2 * p, d * (k - 1) + 1
    if N - E > 5000:   # closed form only for the huge boundary sizes (checked against brute force below that)
        return (N - E) // s + 1
    c, i = 0, 0
    while i * s + E <= N:
        c += 1
        i += 1
    return c


def axis(rng, big=False):
    k = rng.choice([1, 1, 2, 3, 3, 4, 5, 7, 11])
    s = rng.choice([1, 1, 1, 2, 2, 3, 4, 7])
    p = rng.choice([0, 0, 1, 1, 2, 3, 8])
    d = rng.choice([1, 1, 1, 2, 3, 5])
    lo = max(1, d * (k - 1) + 1 - 2 * p)
    if big:
        n = rng.choice([2 ** 53 + 1, 2 ** 60 + 3, 2 ** 31, 255, 127, 250, 65535, 300])
        n = max(n, lo)
    else:
        n = rng.choice([lo, lo + 1, lo + rng.randrange(0, 40), rng.randrange(lo, lo + 300)])
    return n, p, d, k, s


def gen(rng, tier):
    cases = []
    N = 420 if tier == "quick" else 6000
    for i in range(N):
        ndim = rng.choice([1, 2, 2])
        ax = [axis(rng, big=(rng.random() < 0.08)) for _ in range(ndim)]
        n, p, d, k, s = (list(x) for x in zip(*ax))
        r = rng.random()
        kind = ("util" if r < 0.35 else "conv" if r < 0.6 else "infer_conv" if r < 0.8 else "infer_pool")
        pad = form_of(rng, p, ndim)
        rs = rng.random()
        if rs < 0.12:
            pad = "valid"; p = [0] * ndim
            n = [max(nn, dd * (kk - 1) + 1) for nn, dd, kk in zip(n, d, k)]
        elif rs < 0.24:
            pad = "same"; s = [1] * ndim
        if kind == "infer_pool":
            ndim = 2
            if len(n) == 1:
                ax2 = axis(rng)
                n.append(ax2[0]); p.append(ax2[1]); d.append(1); k.append(ax2[3]); s.append(ax2[4])
            d = [1, 1]
            n = [max(nn, kk - 2 * pp, 1) for nn, pp, kk in zip(n, p, k)]
            if isinstance(pad, str):
                pad = form_of(rng, p, 2)
            else:
                pad = form_of(rng, p, 2)
        c = {"kind": kind, "ndim": ndim, "n": n, "p": p, "d": d, "k": k, "s": s, "reassign": rng.random() < 0.25, "subclass": rng.random() < 0.15, "loop": rng.random() < 0.2, "branch": rng.choice([0, 0, 0, 1, 2]),
             "input": seq_form(rng, n) if ndim == 2 else form_of(rng, n, 1) if kind == "util" else {"f": rng.choice(["int", "npint"]), "v": n, "dt": "int64"},
             "padding": pad, "dilation": form_of(rng, d, ndim), "stride": form_of(rng, s, ndim),
             "kernel": form_of(rng, k, ndim), "cin": rng.choice([1, 2, 3]), "cout": rng.choice([1, 2, 4]),
             "pool": rng.choice(["SumPool2d", "AvgPool2d"])}
        if kind in ("conv", "infer_conv") and ndim == 2 and c["input"]["f"] in ("int", "npint"):
            c["input"] = {"f": "tuple", "v": n}
        if max(n) > 2 ** 62:
            c["input"] = {"f": "tuple", "v": n} if ndim == 2 or kind == "util" else {"f": "int", "v": n}
        cases.append(c)
    # pairs of 2-d geometries that differ only in WHICH hyper-parameter is given as a scalar and which as a pair (the flattened
    # numbers coincide): each must be computed from its own arguments, whatever was computed before in this process
    def npi(v):
        return {"f": "npint", "v": [v, v], "dt": rng.choice(["int64", "int32"])}
    def pair(v):
        return {"f": rng.choice(["tuple", "list", "nd"]), "v": list(v), "dt": "int64"}
    for _ in range(10 if tier == "quick" else 120):
        a, b, cc = rng.sample([1, 2, 3], 3) if rng.random() < 0.7 else [rng.choice([1, 2, 3]) for _ in range(3)]
        n = [rng.randint(20, 40)] * 2 if rng.random() < 0.5 else [rng.randint(20, 40), rng.randint(20, 40)]
        k = [3, 3]
        base = {"ndim": 2, "n": n, "k": k, "s": [1, 1], "input": {"f": "tuple", "v": n}, "stride": {"f": "int", "v": [1, 1]},
                "kernel": {"f": "tuple", "v": k}, "cin": 2, "cout": 4, "pool": "SumPool2d"}
        x = dict(base, p=[a, a], d=[b, cc], padding=npi(a), dilation=pair([b, cc]))
        y = dict(base, p=[a, b], d=[cc, cc], padding=pair([a, b]), dilation=npi(cc))
        order = [x, y] if rng.random() < 0.5 else [y, x]
        kind = rng.choice(["util", "conv", "infer_conv"])
        for g in order:
            cases.append(dict(g, kind=kind))
        # pooling: kernel scalar / stride pair  versus  kernel pair / stride scalar
        ks, st2 = rng.choice([2, 3]), rng.choice([1, 2])
        st1 = rng.choice([v for v in [1, 2, 3] if v != st2])
        nb = [rng.randint(10, 20)] * 2
        pb = {"ndim": 2, "n": nb, "p": [0, 0], "d": [1, 1], "input": {"f": "tuple", "v": nb}, "padding": {"f": "tuple", "v": [0, 0]},
              "dilation": {"f": "int", "v": [1, 1]}, "cin": 3, "cout": 3, "pool": rng.choice(["SumPool2d", "AvgPool2d"]), "kind": "infer_pool"}
        px = dict(pb, k=[ks, ks], s=[ks, st1], kernel=npi(ks), stride=pair([ks, st1]))
        py = dict(pb, k=[ks, ks], s=[st1, st1], kernel=pair([ks, ks]), stride=npi(st1))
        for g in ([px, py] if rng.random() < 0.5 else [py, px]):
            cases.append(g)
    # Conv1d called with type arguments already filled in (a copy of a typed node with one field changed): the types must be
    # derived from input_shape and the hyper-parameters
    for _ in range(12 if tier == "quick" else 150):
        ax = axis(rng)
        n, p, d, k, st = ([v] for v in ax)
        cases.append({"kind": "conv", "ndim": 1, "n": n, "p": p, "d": d, "k": k, "s": st, "input": {"f": "int", "v": n},
                      "padding": form_of(rng, p, 1), "dilation": form_of(rng, d, 1), "stride": form_of(rng, st, 1),
                      "kernel": form_of(rng, k, 1), "cin": 2, "cout": 3, "pool": "SumPool2d", "stale": True})
    return cases


def expected(c):
    if c["padding"] == "same":
        return list(c["n"])
    return [count_positions(*t) for t in zip(c["n"], c["p"], c["d"], c["k"], c["s"])]


def conv_recipe(c, input_shape):
    cls = "Conv1d" if c["ndim"] == 1 else "Conv2d"
    w = np.zeros((c["cout"], c["cin"], *c["k"]), dtype=np.float32)
    return {"k": cls, "args": {"input_shape": input_shape, "weight": w, "stride": mat(c["stride"]),
                               "padding": mat(c["padding"]), "dilation": mat(c["dilation"]),
                               "groups": 1, "bias": np.zeros(c["cout"], dtype=np.float32)}}


def run(c):
    from nir.ir.utils import calculate_conv_output
    exp = expected(c)
    forms = tuple(x if isinstance(x, str) else (x["f"], x.get("dt")) for x in
                  (c["input"], c["padding"], c["dilation"], c["stride"], c["kernel"]))
    sig = (c["kind"], tuple(c["n"]), tuple(c["p"]), tuple(c["d"]), tuple(c["k"]), tuple(c["s"]), forms, c["pool"], c.get("stale"), bool(c.get("reassign")) and c["kind"] == "infer_conv", bool(c.get("subclass")), bool(c.get("loop")), c.get("branch", 0))
    nontriv = (c["ndim"] == 2 and c["k"][0] != c["k"][1]) or any(x != 1 for x in c["s"] + c["d"]) or any(c["p"]) \
        or any(f[0] not in ("int",) for f in forms if not isinstance(f, str))
    fail = None
    if c["kind"] == "util":
        args = [mat(c[x]) for x in ("input", "padding", "dilation", "kernel", "stride")]
        try:
            out = calculate_conv_output(*args)
            obs = ("ok", ints_or_none(out))
        except BaseException as ex:  # noqa: BLE001
            obs = ("err", type(ex).__name__)
        coq = "(ConvUtil " + " ".join(F.pval(a) for a in args) + " " + res_list(obs) + ")"
        if obs != ("ok", exp):
            fail = (f"calculate_conv_output(input={args[0]!r}, padding={args[1]!r}, dilation={args[2]!r}, "
                    f"kernel={args[3]!r}, stride={args[4]!r}) -> {obs}; kernel fits at {exp} positions")
        return Outcome(coq, fail, nontriv, sig)
    if c["kind"] == "conv":
        r = conv_recipe(c, mat(c["input"]))
        if c.get("stale"):
            r["args"]["input_type"] = {"input": np.array([1, 100])}
            r["args"]["output_type"] = {"output": np.array([2, 50])}
        res = try_build(r)
        coq = f"(ConvG {cbuild(r, res)})" if not c.get("stale") else None
        if res[0] != "ok":
            fail = f"{r['k']} construction raised {res[1]} for n={c['n']} p={c['padding']} d={c['d']} k={c['k']} s={c['s']}"
        else:
            node = res[1]
            want_in, want_out = [c["cin"]] + list(c["n"]), [c["cout"]] + exp
            if tval(node.input_type, "input") != want_in or tval(node.output_type, "output") != want_out:
                fail = (f"{r['k']}(input_shape={c['n']}, kernel={c['k']}, stride={c['s']}, padding={c['padding'] if isinstance(c['padding'], str) else c['p']}, "
                        f"dilation={c['d']}): types {node.input_type} -> {node.output_type}, expected {want_in} -> {want_out}")
        return Outcome(coq, fail, nontriv, sig)
    if c["kind"] == "infer_conv":
        mid = conv_recipe(c, None)
        cin = c["cin"]
        want_out = [c["cout"]] + exp
    else:
        mid = {"k": c["pool"], "args": {"kernel_size": mat(c["kernel"]), "stride": mat(c["stride"]),
                                        "padding": mat(c["padding"])}}
        cin = c["cin"]
        want_out = [cin] + exp
    if c.get("subclass"):
        mid["subclass"] = True
    r = {"k": "NIRGraph", "nodes": {
        "in": {"k": "Input", "args": {"input_type": np.array([cin] + list(c["n"]), dtype=np.int64)}},
        "mid": mid, "out": {"k": "Output", "args": {"output_type": None}}},
        "edges": [("in", "mid"), ("mid", "out")]}
    if c.get("loop"):
        # a recurrent, type-consistent part in front of the layer: in -> rec, rec -> rec (self-loop), rec -> relay -> rec, rec -> mid
        sh = tuple([cin] + list(c["n"]))
        import math as _m
        if _m.prod(int(x) for x in sh) <= 4096:
            r["nodes"]["rec"] = {"k": "Scale", "args": {"scale": np.ones(sh, dtype="float32")}}
            r["nodes"]["relay"] = {"k": "Threshold", "args": {"threshold": np.ones(sh, dtype="float32")}}
            r["edges"] = [("in", "rec"), ("rec", "rec"), ("rec", "relay"), ("relay", "rec"), ("rec", "mid"), ("mid", "out")]
    if c.get("branch") and not c.get("loop"):
        # the layer sits in one branch of a fan-out at a NON-Input node, and the edge list is written branch by branch (so the
        # hub's outgoing edges are not adjacent in the list): every branch must be typed, whichever is listed first
        sh = tuple([cin] + list(c["n"]))
        import math as _m
        if _m.prod(int(x) for x in sh) <= 4096:
            r["nodes"]["hub"] = {"k": "Scale", "args": {"scale": np.ones(sh, dtype="float32")}}
            r["nodes"]["side"] = {"k": "Threshold", "args": {"threshold": np.ones(sh, dtype="float32")}}
            r["nodes"]["side_out"] = {"k": "Output", "args": {"output_type": None}}
            main, side = [("hub", "mid"), ("mid", "out")], [("hub", "side"), ("side", "side_out")]
            r["edges"] = [("in", "hub")] + (main + side if c["branch"] == 1 else side + main)
    if c.get("reassign") and c["kind"] == "infer_conv":
        # the convolution is first built around a weight with ANOTHER kernel size and then given its real weight (a field
        # assignment, e.g. after loading a checkpoint); inference must use the weight the node has when it runs
        import copy
        from .common import quiet, time_limit, Timeout
        r0 = copy.deepcopy(r)
        r0["nodes"]["mid"]["args"]["weight"] = np.zeros((c["cout"], c["cin"], *[k + 2 for k in c["k"]]), dtype=np.float32)
        b = try_build(r0)
        if b[0] != "ok":
            res = b
        else:
            g0 = b[1]
            g0.nodes["mid"].weight = r["nodes"]["mid"]["args"]["weight"]
            raised, name = False, None
            try:
                with time_limit(10), quiet():
                    g0.infer_types()
            except Timeout:
                raise
            except BaseException as e:  # noqa: BLE001
                raised, name = True, type(e).__name__
            res = ("ok", g0, raised, name)
    else:
        res = run_infer(r)
    coq = f"(ConvG {cinfer(r, res)})"
    if res[0] != "ok" or res[2]:
        fail = f"infer_types raised {res[-1]} on Input({[cin] + c['n']})->{mid['k']}->Output(None), n={c['n']} k={c['k']} s={c['s']} p={c['padding']} d={c['d']}"
    else:
        g = res[1]
        got_in = tval(g.nodes["mid"].input_type, "input")
        got_out = tval(g.nodes["mid"].output_type, "output")
        if got_in != [cin] + list(c["n"]) or got_out != want_out:
            fail = (f"inferred {mid['k']} types {got_in} -> {got_out}, expected {[cin] + c['n']} -> {want_out} "
                    f"(k={c['k']} s={c['s']} p={c['padding'] if isinstance(c['padding'], str) else c['p']} d={c['d']})")
        elif tval(g.nodes["out"].output_type, "output") != want_out:
            fail = f"Output after inference typed {g.nodes['out'].output_type}, expected {want_out}"
    return Outcome(coq, fail, nontriv, sig)
