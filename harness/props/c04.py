"""C04 — Reader decodes every valid encoding of the layout, including legacy files."""
import copy
import dataclasses
import io
import os

import h5py
import numpy as np

from .. import pyobs
from .. import sergen as S
from .. import values as V
from .common import Outcome, quiet, try_build
from .sercommon import compare_graphs, num_equal, same_type_dict
from .c03 import PARAMS

ID = "C04"
COQ_IMPORT = "Corr.CNodes"
COQ_CASE_TYPE = "g_case"
COQ_CHECK = "g_check"
THEOREMS = ["c04_string_encoding_irrelevant", "c04_version_encoding_irrelevant", "c04_constructors_respect_numeric_similarity", "c04_constructors_respect_numeric_similarity'", "c04_views_blind_to_width_and_container", "c04_edges_bytes_or_str", "c04_empty_edges", "c04_rewrite"]
PROOF_FILES = ["Proofs/SimProofs.v", "Proofs/SerialProofs.v"]
RULE = ("graphs of the C01 generator re-encoded by an INDEPENDENT raw-h5py encoder under random combinations of "
        "{variable/fixed-length strings} x {ASCII/UTF-8 charset} x {integer dtype i8..u64 wide enough for shapes and "
        "hyper-parameters} x {contiguous / chunked+gzip+shuffle} x {creation-order tracking on/off} x subsets of the "
        "omissible optional fields (metadata, CubaLIF w_in, Flatten start_dim/end_dim/input_type); nir.read must return "
        "the same graph; plus the 8 shipped .nir artefacts: read, re-write, re-read equal. thorough: full product of "
        "the encoding choices on smaller graphs. distinct = (recipe, encoding); non-trivial = a non-default encoding "
        "choice is active")
ASSUMPTIONS = ["chunking / compression / creation order are invisible above the h5py API (law A5); exercised, not modelled"]

ARTEFACTS = ["paper/01_lif/lif_norse.nir", "paper/01_lif/lif_rockpool.nir",
             "paper/01_lif/debug_spike_representation/two_lif_neurons.nir", "paper/02_cnn/cnn_sinabs.nir",
             "paper/03_rnn/braille_noDelay_bias_zero.nir", "paper/03_rnn/braille_noDelay_noBias_subtract.nir",
             "paper/03_rnn/extras/braille_noDelay_bias_zero_subgraph.nir",
             "paper/03_rnn/extras/braille_noDelay_noBias_subtract_subgraph.nir"]
HYPER = {"input_shape", "stride", "padding", "dilation", "groups", "kernel_size", "start_dim", "end_dim", "shape", "input_type"}
INT_DTYPES = ["int8", "int16", "int32", "int64", "uint8", "uint16", "uint32", "uint64"]


def gen(rng, tier):
    cases = [{"kind": "artefact", "path": p} for p in ARTEFACTS]
    N = 150 if tier == "quick" else 1800
    for _ in range(N):
        r = S.serial_graph(rng, depth=rng.choice([0, 1, 2]), max_nodes=rng.choice([2, 4, 6]))
        enc = {"vlen": rng.random() < 0.5, "ascii": rng.random() < 0.5, "int": rng.choice(INT_DTYPES + ["keep"]),
               "chunk": rng.random() < 0.5, "track": rng.random() < 0.5, "omit": rng.random() < 0.6,
               "omit_flatten_input": rng.random() < 0.3, "seed": rng.randrange(2 ** 30)}
        cases.append({"kind": "enc", "recipe": V.enc_recipe(r), "enc": enc})
    # CubaLIF whose parameters have DIFFERENT element types, with the (default) input weight omitted from the file: the reader
    # must supply what the constructor supplies
    import numpy as np
    for _ in range(12 if tier == "quick" else 150):
        sh = [rng.randint(1, 3) for _ in range(rng.choice([0, 1, 2]))]
        dts = [rng.choice(["float32", "float64", "float16", "int32", "float64"]) for _ in range(5)]
        if len(set(dts)) == 1:
            dts[0] = "float32" if dts[0] != "float32" else "float64"
        args = {p: S.rand_array(rng, sh, dt) for p, dt in zip(["tau_syn", "tau_mem", "r", "v_leak", "v_threshold"], dts)}
        r = {"k": "NIRGraph", "nodes": {"n": {"k": "CubaLIF", "args": args}}, "edges": []}
        enc = {"vlen": rng.random() < 0.5, "ascii": rng.random() < 0.5, "int": "keep", "chunk": rng.random() < 0.5, "track": rng.random() < 0.5,
               "omit": True, "omit_flatten_input": False, "seed": rng.randrange(2 ** 30)}
        cases.append({"kind": "enc", "recipe": V.enc_recipe(r), "enc": enc})
    return cases


def sdt(text, enc):
    b = text.encode("utf8")
    ascii_ok = enc["ascii"] and all(c < 128 for c in b)
    return h5py.string_dtype("ascii" if ascii_ok else "utf-8", None if enc["vlen"] else max(1, len(b)))


def put_str(grp, k, text, enc):
    grp.create_dataset(k, data=text.encode("utf8"), dtype=sdt(text, enc))


def put_num(grp, k, v, enc, hyper, rng):
    a = np.asarray(v)
    if hyper and a.dtype.kind in "iu" and enc["int"] != "keep":
        ok = [d for d in INT_DTYPES if a.size == 0 or (np.iinfo(d).min <= int(a.min()) and int(a.max()) <= np.iinfo(d).max)]
        d = enc["int"] if enc["int"] in ok else rng.choice(ok)
        a = a.astype(d)
    kw = {}
    if enc["chunk"] and a.ndim >= 1 and a.size > 0:
        kw = dict(chunks=tuple(max(1, s // 2) for s in a.shape), compression="gzip", shuffle=True)
        flat = a.reshape(-1)
        if a.dtype.kind in "iuf" and np.ascontiguousarray(a).tobytes() == flat[:1].tobytes() * a.size and rng.random() < 0.7:
            # a constant array stored the way HDF5 stores it most compactly: the value is the dataset's FILL VALUE and no
            # chunk is ever allocated (storage size 0) — a valid encoding that reads back as the constant
            grp.create_dataset(k, shape=a.shape, dtype=a.dtype, chunks=kw["chunks"], fillvalue=flat[0])
            return
    grp.create_dataset(k, data=a, dtype=a.dtype, **kw)


def put_md(grp, md, enc, rng):
    for k, v in md.items():
        if isinstance(v, dict):
            put_md(grp.create_group(k, track_order=enc["track"]), v, enc, rng)
        elif isinstance(v, str):
            put_str(grp, k, v, enc)
        else:
            put_num(grp, k, v, enc, False, rng)


def encode(grp, n, recipe, enc, rng):
    """independent encoder of the documented layout; returns the recipe of the graph a reader must obtain"""
    cls = type(n).__name__
    put_str(grp, "type", cls, enc)
    recipe = copy.copy(recipe)
    if cls == "NIRGraph":
        ng = grp.create_group("nodes", track_order=enc["track"])
        names = list(n.nodes)
        rng.shuffle(names)
        recipe["nodes"] = dict(recipe["nodes"])
        for name in names:
            recipe["nodes"][name] = encode(ng.create_group(name, track_order=enc["track"]), n.nodes[name], recipe["nodes"][name], enc, rng)
        edges = [(str(a), str(b)) for a, b in n.edges]
        if edges:
            longest = max(len(x.encode("utf8")) for e in edges for x in e)
            ascii_ok = enc["ascii"] and all(c < 128 for e in edges for x in e for c in x.encode("utf8"))
            dt = h5py.string_dtype("ascii" if ascii_ok else "utf-8", None if enc["vlen"] else max(1, longest))
            rows = [[a.encode("utf8"), b.encode("utf8")] for a, b in edges]
            grp.create_dataset("edges", data=np.array(rows, dtype=object if enc["vlen"] else dt), dtype=dt)
        else:
            grp.create_dataset("edges", data=np.zeros((0,)))
    else:
        recipe["args"] = dict(recipe["args"])
        for p in PARAMS[cls]:
            v = getattr(n, p)
            if enc["omit"]:
                if cls == "CubaLIF" and p == "w_in" and np.all(np.asarray(v) == 1) and np.asarray(v).dtype.kind == "f":
                    continue
                if cls == "Flatten" and p == "start_dim" and int(v) == 1:
                    continue
                if cls == "Flatten" and p == "end_dim" and int(v) == -1:
                    continue
            if isinstance(v, str):
                put_str(grp, p, v, enc)
            else:
                put_num(grp, p, v, enc, p in HYPER, rng)
        if cls == "Input":
            put_num(grp, "shape", n.input_type["input"], enc, True, rng)
        elif cls == "Output":
            put_num(grp, "shape", n.output_type["output"], enc, True, rng)
        elif cls == "Flatten":
            if enc["omit_flatten_input"]:
                recipe["args"]["input_type"] = None
            else:
                put_num(grp, "input_type", n.input_type["input"], enc, True, rng)
    if n.metadata != {}:
        put_md(grp.create_group("metadata", track_order=enc["track"]), n.metadata, enc, rng)
    return recipe


def same_graph(a, b, path="root"):
    """two graphs read from files hold the same content"""
    if type(a).__name__ != type(b).__name__:
        return f"{path}: class differs"
    if type(a).__name__ == "NIRGraph":
        if set(a.nodes) != set(b.nodes):
            return f"{path}: node names differ"
        if [tuple(e) for e in a.edges] != [tuple(e) for e in b.edges]:
            return f"{path}: edges differ"
        for k in a.nodes:
            d = same_graph(a.nodes[k], b.nodes[k], f"{path}/{k}")
            if d:
                return d
    else:
        for f in dataclasses.fields(a):
            if f.name in ("input_type", "output_type"):
                continue
            if not num_equal(getattr(a, f.name), getattr(b, f.name)):
                return f"{path}.{f.name}: {getattr(b, f.name)!r} != {getattr(a, f.name)!r}"
    if not num_equal(a.metadata, b.metadata):
        return f"{path}: metadata differs"
    if not same_type_dict(a.input_type, b.input_type) or not same_type_dict(a.output_type, b.output_type):
        return f"{path}: types differ: {b.input_type} {b.output_type} vs {a.input_type} {a.output_type}"
    return None


def run(c):
    import random
    import nir
    if c["kind"] == "artefact":
        p = os.environ.get("NIR_REPO", "/repo") + "/" + c["path"]
        try:
            with quiet():
                g = nir.read(p)
        except BaseException as e:  # noqa: BLE001
            return Outcome(None, f"shipped artefact {c['path']} cannot be read: {type(e).__name__}: {e}", True, c["path"])
        with h5py.File(p, "r") as f:
            coq = f"(CRead {pyobs.h5_term(f)} (Ok {pyobs.node_term(g)}))"
        try:
            bio = io.BytesIO()
            with quiet():
                nir.write(bio, g)
                g2 = nir.read(bio)
            fail = same_graph(g, g2)
            if fail:
                fail = f"{c['path']} re-written and re-read: {fail}"
        except BaseException as e:  # noqa: BLE001
            fail = f"{c['path']}: re-writing / re-reading raised {type(e).__name__}: {e}"
        return Outcome(coq, fail, True, c["path"])
    r = V.dec_recipe(c["recipe"])
    enc = c["enc"]
    sig = repr((c["recipe"], sorted(enc.items())))
    b = try_build(r)
    if b[0] != "ok":
        return Outcome(None, None, False, sig)
    g = b[1]
    # only graphs nir itself can write are in the domain (C01): names must be legal links
    try:
        with quiet():
            nir.write(io.BytesIO(), g)
    except BaseException:  # noqa: BLE001
        return Outcome(None, None, False, sig)
    rng = random.Random(enc["seed"])
    bio = io.BytesIO()
    with h5py.File(bio, "w", track_order=enc["track"]) as f:
        put_str(f, "version", "9.9-foreign", enc)
        expected = encode(f.create_group("node", track_order=enc["track"]), g, r, enc, rng)
    with h5py.File(bio, "r") as f:
        tree = pyobs.h5_term(f)
    try:
        with quiet():
            g2 = nir.read(bio)
        obs = ("ok", g2)
    except BaseException as e:  # noqa: BLE001
        obs = ("err", type(e).__name__, str(e))
    coq = f"(CRead {tree} " + (f"(Ok {pyobs.node_term(obs[1])})" if obs[0] == "ok" else "(Err OtherError)") + ")"
    if obs[0] != "ok":
        fail = f"nir.read raised {obs[1]}: {obs[2][:200]} on a conforming file encoded with {enc}"
    else:
        with quiet():
            gexp = V.build(expected)
        fail = compare_graphs(gexp, g2, expected, strict_arrays=(enc["int"] == "keep"))   # integer widths may have been changed by the encoder
        if fail:
            fail = f"encoding {enc}: " + fail
    nontriv = (not enc["vlen"]) or enc["ascii"] or enc["int"] != "keep" or enc["chunk"] or enc["track"] or enc["omit"]
    return Outcome(coq, fail, nontriv, sig)
