"""C17 — Observing a graph never changes it."""
import dataclasses
import hashlib
import io
import threading
import warnings

import numpy as np

from .. import coqfmt as F
from .. import pyobs
from .. import graphgen as G
from .. import sergen as S
from .. import values as V
from .common import Outcome, quiet, try_build
from .c10 import digest
from .c13 import mutables, poke

warnings.filterwarnings("ignore")

ID = "C17"
COQ_IMPORT = "Corr.CNodes"
COQ_CASE_TYPE = "g_case"
COQ_CHECK = "g_check"
THEOREMS = ["c17_check_reads_types_only", "c17_to_dict_ignores_cache", "c17_check_ignores_cache", "c17_write_reads_dict_only", "c17_inputs_sublist", "c17_outputs_sublist", "c17_separate_reads_independent", "c17_to_dict_allocates_only"]
PROOF_FILES = ["Proofs/SerialProofs.v", "Proofs/AliasProofs.v"]
RULE = ("the C01 graph generator plus failing variants (unwritable metadata value None / object / uncopyable lock, "
        "out-of-range int, inconsistent types, dangling edges, a nested graph whose child was retyped after "
        "construction); random sequences of 1..6 observers from {to_dict, write, _check_types, inputs, outputs}; deep "
        "snapshot (sha256 of every array, id() of every node / dict / array, dict key order, edge list, all types incl. "
        "graph-level ones) before and after each observer, also when it raises; two nir.read calls on one file with "
        "in-place mutation of everything in one result. distinct = (recipe, observers); non-trivial = some observer "
        "raises or the graph has metadata / nesting")
ASSUMPTIONS = ["frame condition of the CPython code is established behaviourally (snapshots), the model's observers are "
               "pure functions by construction"]

OBS = ["to_dict", "write", "check", "inputs", "outputs"]


class Unwritable:
    pass


def spoil(rng, r):
    """make some observer fail"""
    r = dict(r)
    how = rng.choice(["none", "none", "md_none", "md_obj", "md_lock", "md_bigint", "dangling", "node_md_none", "md_is_none",
                      "node_md_is_none", "md_proxy", "md_node", "md_node"])
    if how == "md_none":
        r["metadata"] = {"bad": None, "ok": 1}
    elif how == "md_obj":
        r["metadata"] = {"fine": np.arange(3), "bad": "__OBJ__"}
    elif how == "md_lock":
        r["metadata"] = {"lock": "__LOCK__"}
    elif how == "md_bigint":
        r["metadata"] = {"big": 2 ** 70}
    elif how == "md_node":
        # a NIR node object kept as a metadata VALUE (provenance: "fused from ...")
        r["metadata"] = {"provenance": {"fused_from": "__NODE__"}, "n": 1} if rng.random() < 0.5 else {"fused_from": "__NODE__"}
    elif how == "md_is_none":
        r["metadata"] = "__NOMD__"            # metadata=None instead of a dictionary
    elif how == "md_proxy":
        r["metadata"] = "__PROXY__"           # a read-only mapping that is not a dict
    elif how == "node_md_is_none" and r["nodes"]:
        k = rng.choice(list(r["nodes"]))
        n = dict(r["nodes"][k])
        if n["k"] not in ("NIRGraph", "__alias__"):
            n["args"] = dict(n["args"]); n["args"]["metadata"] = "__NOMD__"
            r["nodes"] = dict(r["nodes"]); r["nodes"][k] = n
    elif how == "dangling":
        r["edges"] = list(r["edges"]) + [("nowhere", "ghost")]
    elif how == "node_md_none" and r["nodes"]:
        k = rng.choice(list(r["nodes"]))
        n = dict(r["nodes"][k])
        if n["k"] not in ("NIRGraph", "__alias__"):
            n["args"] = dict(n["args"]); n["args"]["metadata"] = {"x": {"deep": None}}
            r["nodes"] = dict(r["nodes"]); r["nodes"][k] = n
    return r, how


def gen(rng, tier):
    N = 150 if tier == "quick" else 1800
    cases = []
    for _ in range(N):
        r = S.serial_graph(rng, depth=rng.choice([0, 1, 2, 2]), max_nodes=rng.choice([2, 4, 6]), shared=rng.random() < 0.2)
        r, how = spoil(rng, r)
        seq = [rng.choice(OBS) for _ in range(rng.randint(1, 6))]
        stale = rng.random() < 0.35
        subs = [k for k, v in r["nodes"].items() if v["k"] == "NIRGraph"]
        if stale and subs:
            # the nested graph must be an edge endpoint and the type check must be among the observers
            k = rng.choice(subs)
            r["edges"] = list(r["edges"]) + [(k, k), (rng.choice(list(r["nodes"])), k)]
            seq.insert(rng.randrange(len(seq) + 1), "check")
        cases.append({"kind": "observe", "recipe": V.enc_recipe(r), "how": how, "seq": seq, "stale": stale})
    # shape annotations with a NEGATIVE entry (an "unknown batch size" convention) on edges between nodes of equal rank
    for _ in range(6 if tier == "quick" else 60):
        b = rng.choice([2, 5])
        r = {"k": "NIRGraph", "nodes": {
            "in": {"k": "Input", "args": {"input_type": np.array([-1, 3], dtype=np.int64)}},
            "aff": {"k": "Affine", "args": {"weight": np.ones((b, 2, 3), dtype="float32"), "bias": np.ones(2, dtype="float32")}},
            "out": {"k": "Output", "args": {"output_type": np.array([rng.choice([-1, b]), 2], dtype=np.int64)}}},
            "edges": rng.choice([[("in", "aff"), ("aff", "out")], [("aff", "out"), ("in", "aff"), ("in", "out")]])}
        cases.append({"kind": "observe", "recipe": V.enc_recipe(r), "how": "negdim", "seq": [rng.choice(OBS + ["check", "check"]) for _ in range(rng.randint(1, 4))] + ["check"],
                      "stale": False})
    # typed convolutions with padding 'same' and a stride > 1 (and other strided / padded layers) as edge targets
    for _ in range(8 if tier == "quick" else 80):
        nd = rng.choice([1, 2, 2])
        n = [rng.randint(6, 10) for _ in range(nd)]
        st = [rng.choice([2, 3]) for _ in range(nd)]
        conv = {"k": "Conv1d" if nd == 1 else "Conv2d",
                "args": {"input_shape": n[0] if nd == 1 else tuple(n), "weight": np.ones([3, 2] + [3] * nd, dtype="float32"),
                         "stride": st[0] if nd == 1 else tuple(st), "padding": rng.choice(["same", "same", "valid", 1]), "dilation": 1, "groups": 1,
                         "bias": np.zeros(3, dtype="float32")}}
        r = {"k": "NIRGraph", "nodes": {"in": {"k": "Input", "args": {"input_type": np.array([2] + n, dtype=np.int64)}}, "conv": conv,
                                        "out": {"k": "Output", "args": {"output_type": None}}},
             "edges": [("in", "conv"), ("conv", "out")]}
        cases.append({"kind": "observe", "recipe": V.enc_recipe(r), "how": "strided", "seq": [rng.choice(OBS) for _ in range(rng.randint(0, 2))] + ["check", "to_dict"],
                      "stale": False})
    # an edge between two nested graphs that each have SEVERAL ports (the type check does not support it and must raise without
    # touching anything)
    for _ in range(6 if tier == "quick" else 60):
        def sub(n_in, n_out):
            nodes = {}
            for i in range(n_in):
                nodes[f"in_{chr(97 + i)}"] = {"k": "Input", "args": {"input_type": np.array([rng.randint(1, 4)], dtype=np.int64)}}
            for i in range(n_out):
                nodes[f"out_{chr(97 + i)}"] = {"k": "Output", "args": {"output_type": np.array([rng.randint(1, 4)], dtype=np.int64)}}
            ins = [k for k in nodes if k.startswith("in_")]
            outs = [k for k in nodes if k.startswith("out_")]
            return {"k": "NIRGraph", "nodes": nodes, "edges": [(rng.choice(ins), o) for o in outs] if ins else []}
        k = rng.choice([2, 2, 3])
        r = {"k": "NIRGraph", "nodes": {"src": sub(1, k), "dst": sub(k, 1), "tail": {"k": "Output", "args": {"output_type": np.array([2], dtype=np.int64)}}},
             "edges": rng.choice([[("src", "dst")], [("src", "dst"), ("dst", "tail")], [("dst", "tail"), ("src", "dst")]])}
        cases.append({"kind": "observe", "recipe": V.enc_recipe(r), "how": "multiport", "seq": [rng.choice(OBS) for _ in range(rng.randint(0, 3))] + ["check"],
                      "stale": False})
    # graphs with tensors of several MiB, read back twice from a PATH (not a buffer): the results must not be windows onto the file
    for _ in range(2 if tier == "quick" else 12):
        cases.append({"kind": "bigread", "n": rng.choice([600, 515, 731]), "dt": rng.choice(["float64", "float32", "int64"]),
                      "target": rng.choice(["str", "path"]), "seed": rng.randrange(2 ** 30)})
    # graphs whose shape annotations are still (partly) undefined — un-inferred convolutions, Flatten and Output nodes behind
    # a typed Input: the file form cannot carry them (write raises), the type check rejects them; neither may "help" by
    # filling the annotations in
    for _ in range(N // 4):
        cg = G.consistent_graph(rng, max_nodes=rng.choice([3, 6]))
        r, done = G.erase(rng, cg)
        seq = [rng.choice(OBS + ["write", "check"]) for _ in range(rng.randint(1, 5))]
        cases.append({"kind": "observe", "recipe": V.enc_recipe(r), "how": "erased:%d" % len(done), "seq": seq, "stale": False})
    return cases


def materialise(x):
    """replace the placeholders by real un-serialisable objects"""
    if isinstance(x, dict):
        return {k: materialise(v) for k, v in x.items()}
    if isinstance(x, str) and x == "__OBJ__":
        return Unwritable()
    if isinstance(x, str) and x == "__LOCK__":
        return threading.Lock()
    if isinstance(x, str) and x == "__NOMD__":
        return None
    if isinstance(x, str) and x == "__NODE__":
        import nir
        return nir.Affine(weight=np.ones((2, 3), dtype="float32"), bias=np.zeros(2, dtype="float32"))
    if isinstance(x, str) and x == "__PROXY__":
        import types
        return types.MappingProxyType({"frozen": 1})
    return x


def fix_recipe(r):
    r = dict(r)
    if r["k"] == "NIRGraph":
        if "metadata" in r:
            r["metadata"] = materialise(r["metadata"])
        r["nodes"] = {k: fix_recipe(v) for k, v in r["nodes"].items()}
    elif r["k"] == "__alias__":
        return r
    elif "metadata" in r["args"]:
        r["args"] = dict(r["args"]); r["args"]["metadata"] = materialise(r["args"]["metadata"])
    return r


def dg(v):
    try:
        return digest(v)
    except Exception:
        return ("obj", id(v))


def snapshot(g):
    """values of everything, identity of node objects only (the property lists node identity; a fresh but equal
    type dictionary or array object is not a change of the graph)"""
    snap = {"id": id(g), "order": list(g.nodes), "edges": [tuple(e) for e in g.edges],
            "meta": dg(g.metadata), "gio": (dg(g.input_type), dg(g.output_type)), "nodes": {}}
    for name, n in g.nodes.items():
        if type(n).__name__ == "NIRGraph":
            snap["nodes"][name] = snapshot(n)
            continue
        d = {"id": id(n), "cls": type(n).__name__}
        for f in dataclasses.fields(n):
            d[f.name] = dg(getattr(n, f.name))
        d["tin"] = dg(n.input_type)
        d["tout"] = dg(n.output_type)
        snap["nodes"][name] = d
    return snap


def first_diff(a, b, path="g"):
    if isinstance(a, dict) and isinstance(b, dict):
        if list(a.keys()) != list(b.keys()):
            return f"{path}: keys changed"
        for k in a:
            d = first_diff(a[k], b[k], f"{path}.{k}")
            if d:
                return d
        return None
    return None if a == b else f"{path} changed"


def run_bigread(c):
    import os
    import pathlib
    import shutil
    import tempfile
    import nir
    n = c["n"]
    w = (np.random.RandomState(c["seed"] % (2 ** 31)).randint(0, 1000, size=(n, n))).astype(c["dt"])
    g = nir.NIRGraph(nodes={"input": nir.Input(np.array([n])), "lin": nir.Linear(weight=w), "output": nir.Output(np.array([n]))},
                     edges=[("input", "lin"), ("lin", "output")])
    d = tempfile.mkdtemp(prefix="nirverif_c17_")
    fail = None
    try:
        p = os.path.join(d, "big.nir")
        tgt = p if c["target"] == "str" else pathlib.Path(p)
        with quiet():
            nir.write(tgt, g)
            h0 = hashlib.sha256(open(p, "rb").read()).hexdigest()
            ga, gb = nir.read(tgt), nir.read(tgt)
        sb = snapshot(gb)
        try:
            ga.nodes["lin"].weight[...] = 7
        except Exception as e:  # noqa: BLE001
            fail = f"the weight returned by nir.read cannot be written in place: {type(e).__name__}"
        if not fail and first_diff(sb, snapshot(gb)):
            fail = f"mutating the {n}x{n} {c['dt']} weight of the graph returned by one nir.read({c['target']}) changed the graph returned by another"
        del ga, gb
        if not fail and hashlib.sha256(open(p, "rb").read()).hexdigest() != h0:
            fail = f"mutating the {n}x{n} {c['dt']} weight of a graph returned by nir.read({c['target']}) changed the file"
        if not fail:
            with quiet():
                gc = nir.read(tgt)
            if not np.array_equal(gc.nodes["lin"].weight, w):
                fail = "a later nir.read of the same path returns other values after an earlier result was mutated"
    finally:
        shutil.rmtree(d, ignore_errors=True)
    return Outcome(None, fail, True, repr(c))


def run(c):
    import nir
    if c["kind"] == "bigread":
        return run_bigread(c)
    r = fix_recipe(V.dec_recipe(c["recipe"]))
    sig = repr((c["recipe"], c["seq"], c["stale"]))
    b = try_build(r)
    if b[0] != "ok":
        return Outcome(None, None, False, sig)
    g = b[1]
    if c["stale"]:
        # retype a child of a nested graph after construction: the nested graph's cached types go stale,
        # which is a state observers must leave alone
        for sub in g.nodes.values():
            if type(sub).__name__ == "NIRGraph":
                for ch in sub.nodes.values():
                    if type(ch).__name__ in ("Input", "Output"):
                        ch.input_type = {"input": np.array([41, 42])}
                        ch.output_type = {"output": np.array([41, 42])}
    fail = None
    raised_any = False
    coq = None
    for ob in c["seq"]:
        before = snapshot(g)
        try:
            with quiet():
                if ob == "to_dict":
                    g.to_dict()
                elif ob == "write":
                    nir.write(io.BytesIO(), g)
                elif ob == "check":
                    g._check_types()
                elif ob == "inputs":
                    _ = g.inputs
                else:
                    _ = g.outputs
            out = "returned"
        except BaseException as e:  # noqa: BLE001
            out = f"raised {type(e).__name__}"
            raised_any = True
        d = first_diff(before, snapshot(g))
        if d:
            fail = f"observer {ob} ({out}) changed the graph: {d} (variant {c['how']}, stale={c['stale']})"
            break
    if not fail and c["how"] == "none" and not c["stale"]:
        try:
            with quiet():
                chk = g._check_types()
            obs = f"(Ok {F.cbool(chk is True)})"
        except BaseException:  # noqa: BLE001
            obs = "(Err OtherError)"
        coq = f"(CCheck {pyobs.nexpr(V.dec_recipe(c['recipe']))} {obs})"
    if not fail:
        # separate reads are independent
        bio = io.BytesIO()
        try:
            with quiet():
                nir.write(bio, g)
            data = bio.getvalue()
            with quiet():
                ga, gb = nir.read(bio), nir.read(bio)
            sb = snapshot(gb)
            acc = []
            mutables(ga, acc)
            for _, o in acc:
                if not dataclasses.is_dataclass(o):
                    poke(o)
            if first_diff(sb, snapshot(gb)):
                fail = "mutating the graph returned by one nir.read changed the graph returned by another: " + first_diff(sb, snapshot(gb))
            elif bio.getvalue() != data:
                fail = "mutating a graph returned by nir.read changed the file"
            else:
                with quiet():
                    gc = nir.read(bio)
                def strip_ids(x):
                    if isinstance(x, dict):
                        return {k: strip_ids(v) for k, v in x.items() if k != "id"}
                    return x
                if strip_ids(snapshot(gc)) != strip_ids(sb):
                    fail = "a later nir.read of the same file returns a different graph after another result was mutated"
        except BaseException:  # noqa: BLE001
            pass    # unwritable graph: nothing to read
    nontriv = raised_any or "metadata" in r
    return Outcome(coq, fail, nontriv, sig)
