"""C08 — Type inference reconstructs exactly the erased shape annotations."""
import itertools

from .. import graphgen as G
from .. import values as V
from .common import Outcome, cinfer, quiet, run_infer, tval
from .common import ints_or_none

ID = "C08"
COQ_IMPORT = "Corr.CNodes"
COQ_CASE_TYPE = "g_case"
COQ_CHECK = "g_check"
THEOREMS = ["c08_step_restores", "c08_worklist_covers_reachable", "c08_infer_restores", "c08_infer_then_check", "c08_hypotheses_checkable", "c08_flatten_recomputed"]
PROOF_FILES = ["Proofs/RestoreProofs.v", "Proofs/InferProofs.v", "Proofs/NodesProofs.v", "Proofs/ShapesProofs.v", "Proofs/GraphProofs.v"]
RULE = ("random CONSISTENT graphs built forwards from 1-2 Inputs by an independent Python shape oracle "
        "(chains, fan-out, fan-in with equal shapes, residual/recurrent/self-loop/parallel edges, shuffled edge "
        "and node order), 1-14 nodes over all primitives incl. conv->pool->flatten->dense stacks; erasure of a "
        "subset of {Conv input_shape, Flatten input, Output shape (None or wrong)}: all subsets when <= 5 sites in "
        "the thorough tier, random subsets otherwise. distinct = (graph, erasure); non-trivial = >= 1 site erased")
ASSUMPTIONS = ["graphs are flat (inference raises NotImplementedError on nested graphs)"]


def gen(rng, tier):
    cases = []
    N = 150 if tier == "quick" else 1500
    for _ in range(N):
        cg = G.consistent_graph(rng, max_nodes=rng.choice([3, 6, 12]))
        sites = sorted(cg["erasable"])
        subsets = []
        if tier == "thorough" and len(sites) <= 5:
            for k in range(len(sites) + 1):
                subsets += [list(s) for s in itertools.combinations(sites, k)]
        else:
            subsets = [None, None] if sites else [[]]
            if sites:
                subsets.append(sites)
        for sub in subsets:
            r, done = G.erase(rng, cg, sub)
            cases.append({"kind": "erase", "recipe": V.enc_recipe(r),
                          "truth": {k: [list(v[0]), list(v[1])] for k, v in cg["truth"].items()},
                          "erased": [list(d) for d in done]})
    # Input shapes held in NARROW integer arrays, followed by un-annotated convolutions / pooling whose output extent or channel
    # count leaves that dtype's range (the declared types are numbers, not dtype-bound)
    import numpy as np
    for _ in range(10 if tier == "quick" else 120):
        dt, n = rng.choice([("uint8", 250), ("uint8", 255), ("int8", 100), ("int8", 127), ("int16", 32760), ("uint16", 65530)])
        nd = rng.choice([1, 2])
        cin = rng.choice([1, 2])
        cout = rng.choice([3, 4, 300 if dt in ("uint8", "int8") else 5])
        pad = rng.choice([4, 15, 20])
        k = 3
        sp = [n] * nd
        out_sp = [n + 2 * pad - (k - 1)] * nd
        conv = {"k": "Conv1d" if nd == 1 else "Conv2d",
                "args": {"input_shape": None, "weight": np.zeros([cout, cin] + [k] * nd, dtype="float32"), "stride": 1, "padding": pad,
                         "dilation": 1, "groups": 1, "bias": np.zeros(cout, dtype="float32")}}
        nodes = {"input": {"k": "Input", "args": {"input_type": np.array([cin] + sp, dtype=dt)}}, "conv": conv,
                 "output": {"k": "Output", "args": {"output_type": None}}}
        truth = {"input": [[cin] + sp, [cin] + sp], "conv": [[cin] + sp, [cout] + out_sp], "output": [[cout] + out_sp, [cout] + out_sp]}
        r = {"k": "NIRGraph", "nodes": nodes, "edges": [("input", "conv"), ("conv", "output")]}
        cases.append({"kind": "erase", "recipe": V.enc_recipe(r), "truth": truth, "erased": [["conv", "none"], ["output", "none"]]})
    return cases


def run(c):
    r = V.dec_recipe(c["recipe"])
    res = run_infer(r)
    coq = cinfer(r, res)
    sig = repr((c["recipe"],))
    nontriv = len(c["erased"]) >= 1
    fail = None
    if res[0] != "ok":
        fail = f"building the (erased) consistent graph raised {res[1]}"
    elif res[2]:
        fail = f"infer_types() raised {res[3]} on a consistent graph with erased {c['erased']}"
    else:
        g = res[1]
        for name, (tin, tout) in c["truth"].items():
            n = g.nodes[name]
            gi, go = tval(n.input_type, "input"), tval(n.output_type, "output")
            if gi != tin or go != tout:
                fail = (f"after infer_types() node {name} ({type(n).__name__}) has types {gi} -> {go}, "
                        f"the fully annotated graph has {tin} -> {tout} (erased: {c['erased']})")
                break
            if type(n).__name__ in ("Conv1d", "Conv2d"):
                ish = n.input_shape
                got = [int(ish)] if not hasattr(ish, "__len__") else [int(x) for x in ish]
                if got != tin[1:]:
                    fail = f"Conv {name}.input_shape = {ish!r} after inference, expected {tin[1:]}"
                    break
        if fail is None:
            try:
                with quiet():
                    ok = g._check_types()
                if ok is not True:
                    fail = f"_check_types() returned {ok!r} after inference"
            except BaseException as e:  # noqa: BLE001
                fail = f"_check_types() raised {type(e).__name__} after inference (erased: {c['erased']})"
    if fail is None:
        fail = staged(r, c)
    if fail is None:
        fail = aliased_wrong_output(c)
    return Outcome(coq, fail, nontriv, sig)


def aliased_wrong_output(c):
    """ONE ndarray object given to an Input and (as a wrong shape) to an Output, a shape-changing un-annotated layer in between:
    correcting the Output must not rewrite the Input (nor the caller's array)"""
    import hashlib
    import numpy as np
    import nir
    h = int(hashlib.sha256(repr(c["erased"]).encode() + repr(sorted(c["truth"])).encode()).hexdigest(), 16)
    if h % 4:
        return None
    n = 6 + h % 5
    shape = np.array([1, n, n])
    try:
        with quiet():
            conv = nir.Conv2d(input_shape=None, weight=np.zeros((2, 1, 3, 3), dtype="float32"), stride=1, padding=0, dilation=1,
                              groups=1, bias=np.zeros(2, dtype="float32"))
            g = nir.NIRGraph(nodes={"in": nir.Input(shape), "conv": conv, "out": nir.Output(shape), "out2": nir.Output(shape)},
                             edges=[("in", "conv"), ("conv", "out"), ("conv", "out2")])
            g.infer_types()
    except BaseException as e:  # noqa: BLE001
        return f"Input and wrong Output built from one array object: infer_types raised {type(e).__name__}: {e}"
    want = {"in": ([1, n, n], [1, n, n]), "conv": ([1, n, n], [2, n - 2, n - 2]), "out": ([2, n - 2, n - 2],) * 2, "out2": ([2, n - 2, n - 2],) * 2}
    for k, (ti, to) in want.items():
        gi, go = tval(g.nodes[k].input_type, "input"), tval(g.nodes[k].output_type, "output")
        if gi != ti or go != to:
            return (f"Input and (wrong) Output shapes given as ONE array object [1,{n},{n}] around an un-annotated Conv2d: after infer_types() "
                    f"node {k} has {gi} -> {go}, expected {ti} -> {to}")
    if [int(x) for x in shape] != [1, n, n]:
        return f"infer_types() rewrote the caller's shape array to {shape.tolist()}"
    return None


def staged(r, c):
    """the same graph built in two stages on ONE graph object: first only one Input (inferred once), then every other node
    and all edges are added in place and inference runs again — the result must be the truth as well"""
    import nir
    try:
        with quiet():
            full = V.build(r)
            ins = [k for k, n in full.nodes.items() if type(n).__name__ == "Input"]
            if not ins:
                return None
            first = ins[0]
            g = nir.NIRGraph(nodes={first: full.nodes[first]}, edges=[])
            g.infer_types()
            _ = g.inputs, g.outputs
            for k, n in full.nodes.items():
                if k != first:
                    g.nodes[k] = n
            g.edges.extend(full.edges)
            g.infer_types()
    except BaseException as e:  # noqa: BLE001
        return f"building the graph in two stages (one Input first, the rest added in place) and inferring raised {type(e).__name__}: {e}"
    for name, (tin, tout) in c["truth"].items():
        n = g.nodes[name]
        gi, go = tval(n.input_type, "input"), tval(n.output_type, "output")
        if gi != tin or go != tout:
            return (f"graph built in two stages on one object (Input {first!r} first and inferred, the rest added in place, inferred "
                    f"again): node {name} has types {gi} -> {go}, expected {tin} -> {tout} (erased: {c['erased']})")
    want_in = sorted(k for k, n in g.nodes.items() if type(n).__name__ == "Input")
    if sorted(g.inputs.keys()) != want_in or sorted((g.input_type or {}).keys()) != want_in:
        return f"graph built in two stages: graph.inputs {sorted(g.inputs)} / input_type keys {sorted((g.input_type or {}))} != Input children {want_in}"
    return None
