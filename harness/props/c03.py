"""C03 — Written files follow the published on-disk layout."""
import io
import os

import h5py
import numpy as np

from .. import coqfmt as F

from .. import pyobs
from .. import sergen as S
from .. import values as V
from .common import Outcome, quiet, try_build

ID = "C03"
COQ_IMPORT = "Corr.CNodes"
COQ_CASE_TYPE = "g_case"
COQ_CHECK = "g_check"
THEOREMS = ["c03_doc_table_matches_source", "c03_root", "c03_leaf_layout", "c03_file_layout", "c03_constructed_nodes_have_documented_fields", "c03_edges"]
PROOF_FILES = ["Proofs/LayoutProofs.v", "Proofs/SerialProofs.v"]
RULE = ("the C01 graph generator; each written file is traversed with raw h5py (names, group/dataset kind, string "
        "dtype info, dtype, shape, value, attribute count) and compared (a) with the Coq model of nir.write and (b) with "
        "an independent reference encoder written from docs/source/primitives.md + the shipped .nir artefacts "
        "(per-class parameter tables, never to_dict); read_version checked; the shipped artefacts' layout is compared "
        "with the reference encoder of the graphs read from them. distinct = recipe; non-trivial = >= 2 nodes, nested "
        "graph or metadata")
ASSUMPTIONS = ["h5py store laws A1-A4"]

# documented parameter names per primitive (docs/source/primitives.md, API docs, shipped artefacts)
PARAMS = {
    "Input": [], "Output": [],
    "Affine": ["weight", "bias"], "Linear": ["weight"], "Scale": ["scale"],
    "Conv1d": ["input_shape", "weight", "stride", "padding", "dilation", "groups", "bias"],
    "Conv2d": ["input_shape", "weight", "stride", "padding", "dilation", "groups", "bias"],
    "SumPool2d": ["kernel_size", "stride", "padding"], "AvgPool2d": ["kernel_size", "stride", "padding"],
    "Flatten": ["start_dim", "end_dim"], "Delay": ["delay"], "Threshold": ["threshold"],
    "I": ["r"], "IF": ["r", "v_threshold"], "LI": ["tau", "r", "v_leak"],
    "LIF": ["tau", "r", "v_leak", "v_threshold"],
    "CubaLIF": ["tau_syn", "tau_mem", "r", "v_leak", "v_threshold", "w_in"],
}


def ref_value(v):
    """expected dataset for a parameter value: ('str', text) | ('num', dtype str, shape, bytes) | ('group', {...})"""
    if isinstance(v, dict):
        return ("group", {k: ref_value(x) for k, x in v.items()})
    if isinstance(v, (str, np.str_)):
        return ("str", str(v))
    if isinstance(v, np.ndarray):
        return ("num", v.dtype.str, tuple(v.shape), F.canon_bytes(v))
    a = np.asarray(v)
    return ("num", a.dtype.str, tuple(a.shape), F.canon_bytes(a))


def ref_encode(n):
    """independent reference encoder: the tree a conforming file must contain for node n"""
    cls = type(n).__name__
    out = {"type": ("str", cls)}
    if cls == "NIRGraph":
        out["nodes"] = ("group", {k: ("group", ref_encode(c)) for k, c in n.nodes.items()})
        out["edges"] = ("edges", [(str(a), str(b)) for a, b in n.edges])
    else:
        for p in PARAMS[cls]:
            out[p] = ref_value(getattr(n, p))
        if cls == "Input":
            out["shape"] = ref_value(n.input_type["input"])
        elif cls == "Output":
            out["shape"] = ref_value(n.output_type["output"])
        elif cls == "Flatten":
            out["input_type"] = ref_value(n.input_type["input"])
    if n.metadata != {}:
        out["metadata"] = ("group", {k: ref_value(v) for k, v in n.metadata.items()})
    return out


def raw_tree(item):
    if len(item.attrs) != 0:
        return ("attrs!", list(item.attrs))
    if isinstance(item, h5py.Group):
        return ("group", {k: raw_tree(v) for k, v in item.items()})
    info = h5py.check_string_dtype(item.dtype)
    if info is not None:
        v = item[()]
        if item.shape == ():
            if info.encoding != "utf-8" or info.length is not None:
                return ("str-wrong-encoding", info)
            return ("str", v.decode("utf8") if isinstance(v, bytes) else v)
        rows = [tuple(x.decode("utf8") if isinstance(x, bytes) else x for x in r) for r in np.asarray(v, dtype=object).reshape(item.shape[0], -1).tolist()]
        return ("edges", rows) if item.ndim == 2 and item.shape[1] == 2 else ("strs", rows)
    # dtype of the DATASET (reading a 0-d dataset yields a numpy scalar, which is always in native byte order)
    a = np.asarray(item[()]).astype(item.dtype)
    if a.dtype.kind == "c":
        # complex numbers are stored as an HDF5 compound; its member names are part of the layout (h5py's convention: r, i) and
        # are read through the low-level API, independently of this process's h5py configuration
        t = item.id.get_type()
        names = tuple(t.get_member_name(i) for i in range(t.get_nmembers()))
        if names != (b"r", b"i"):
            return ("num", f"compound{names}", tuple(a.shape), F.canon_bytes(a))
    return ("num", item.dtype.str, tuple(a.shape), F.canon_bytes(a))


def diff_tree(exp, got, path):
    if exp[0] == "edges":
        if exp[1] == []:
            if got[0] == "num" and 0 in got[2]:
                return None
            if got == ("edges", []):
                return None
            return f"{path}: expected an empty dataset for no edges, file has {got[:3]}"
        return None if got == exp else f"{path}: expected n-by-2 strings {exp[1]}, file has {got[:2]}"
    if exp[0] != got[0]:
        return f"{path}: expected {exp[0]}, file has {got[0]} {got[1:3] if len(got) > 2 else ''}"
    if exp[0] == "group":
        if set(exp[1]) != set(got[1]):
            return f"{path}: members {sorted(got[1])} != documented {sorted(exp[1])}"
        for k in exp[1]:
            d = diff_tree(exp[1][k], got[1][k], f"{path}/{k}")
            if d:
                return d
        return None
    if exp != got:
        return f"{path}: dataset {got[:3]} != parameter {exp[:3]}" + ("" if exp[:3] != got[:3] else " (byte content differs)")
    return None


def gen(rng, tier):
    N = 160 if tier == "quick" else 2000
    cases = [{"kind": "artefacts"}]
    for _ in range(N):
        r = S.serial_graph(rng, depth=rng.choice([0, 1, 2]), max_nodes=rng.choice([2, 4, 6]))
        cases.append({"kind": "graph", "recipe": V.enc_recipe(r)})
    # a graph that went through infer_types() before it is written: what inference stored in the types is not part of the file; a
    # convolution whose `input_shape` PARAMETER disagrees with what its predecessor delivers is written with the parameter it has
    for _ in range(12 if tier == "quick" else 120):
        nd = rng.choice([1, 2])
        a, bsz = rng.choice([8, 10, 12]), rng.choice([8, 9, 10, 12])
        conv = {"k": "Conv1d" if nd == 1 else "Conv2d",
                "args": {"input_shape": bsz if nd == 1 else (bsz, bsz - 1), "weight": np.ones((2, 3) + (3,) * nd, dtype="float32"),
                         "stride": 1, "padding": 0, "dilation": 1, "groups": 1, "bias": np.ones(2, dtype="float32")}}
        r = {"k": "NIRGraph", "nodes": {"in": {"k": "Input", "args": {"input_type": np.array([3] + [a] * nd)}}, "conv": conv,
                                        "out": {"k": "Output", "args": {"output_type": np.array([2] + [a - 2] * nd)}}},
             "edges": [("in", "conv"), ("conv", "out")]}
        cases.append({"kind": "graph", "recipe": V.enc_recipe(r), "infer_first": True})
    return cases


ARTEFACTS = ["paper/01_lif/lif_norse.nir", "paper/02_cnn/cnn_sinabs.nir",
             "paper/03_rnn/extras/braille_noDelay_bias_zero_subgraph.nir", "paper/01_lif/lif_rockpool.nir",
             "paper/03_rnn/braille_noDelay_bias_zero.nir"]


def run(c):
    import nir
    import nir.serialization
    if c["kind"] == "artefacts":
        # the shipped files are the documentation's ground truth: their layout must be what the reference
        # encoder says for the graphs they hold (up to optional fields and legacy integer widths)
        fail = None
        for rel in ARTEFACTS:
            p = os.environ.get("NIR_REPO", "/repo") + "/" + rel
            try:
                with quiet():
                    g = nir.read(p)
                with h5py.File(p, "r") as f:
                    got = raw_tree(f["node"])
                exp = ("group", ref_encode(g))
                fail = diff_names(exp, got, rel)
            except BaseException as e:  # noqa: BLE001
                fail = f"{rel}: {type(e).__name__}: {e}"
            if fail:
                break
        return Outcome(None, fail, True, ("artefacts",))
    r = V.dec_recipe(c["recipe"])
    b = try_build(r)
    sig = repr(c["recipe"])
    if b[0] != "ok":
        return Outcome(None, None, False, sig)
    g = b[1]
    if c.get("infer_first"):
        try:
            with quiet():
                g.infer_types()
        except BaseException:  # noqa: BLE001
            pass
    bio = io.BytesIO()
    nontriv = len(r["nodes"]) >= 2 or "metadata" in r
    import hashlib
    import shutil
    import tempfile
    pre = int(hashlib.sha256(sig.encode()).hexdigest(), 16) % 5      # 0, 1: the target path already holds something else
    tmpdir = None
    try:
        with quiet():
            if pre in (0, 1):
                tmpdir = tempfile.mkdtemp(prefix="nirverif_c03_")
                p = os.path.join(tmpdir, "model.nir")
                with h5py.File(p, "w") as f0:
                    if pre == 0:     # somebody else's HDF5 file (a checkpoint): the written file must not keep any of it
                        f0.create_dataset("checkpoint", data=np.arange(5.0))
                        f0.create_group("optimizer").create_dataset("lr", data=0.1)
                        f0.attrs["epoch"] = 3
                    else:            # an older NIR file with extra members
                        f0.create_dataset("version", data="0.0.1")
                        f0.create_group("node").create_dataset("type", data="NIRGraph")
                        f0.create_dataset("extra", data=[1, 2, 3])
                        f0["node"].attrs["note"] = "old"
                nir.write(p if pre == 0 else __import__("pathlib").Path(p), g)
                bio = io.BytesIO(open(p, "rb").read())
            else:
                nir.write(bio, g)
    except BaseException as e:  # noqa: BLE001
        return Outcome(f"(CWrite {pyobs.nexpr(r)} (Err OtherError))", None, False, sig)
    finally:
        if tmpdir:
            shutil.rmtree(tmpdir, ignore_errors=True)
    with h5py.File(bio, "r") as f:
        coq = f"(CWrite {pyobs.nexpr(r)} (Ok {pyobs.h5_term(f)}))"
        if c.get("infer_first"):
            coq = None       # inference may re-type the Output, whose shape IS written: decided by the reference encoder on the object
        root = raw_tree(f)
        n_attrs = len(f.attrs) + len(f["node"].attrs) if "node" in f else len(f.attrs)
    fail = None
    if n_attrs:
        fail = f"the written file carries {n_attrs} HDF5 attribute(s) on / or /node (the layout has none)"
    if fail:
        pass
    elif root[0] != "group" or set(root[1]) != {"version", "node"}:
        fail = f"root members {sorted(root[1]) if root[0] == 'group' else root} != ['node', 'version']"
    elif root[1]["version"] != ("str", nir.version):
        fail = f"/version is {root[1]['version']}, library version is {nir.version!r}"
    else:
        fail = diff_tree(("group", ref_encode(g)), root[1]["node"], "/node")
    if not fail:
        try:
            v = nir.serialization.read_version(bio)
            if v != nir.version:
                fail = f"read_version returned {v!r}, library version is {nir.version!r}"
        except BaseException as e:  # noqa: BLE001
            fail = f"read_version raised {type(e).__name__}"
    return Outcome(coq, fail, nontriv, sig)


def diff_names(exp, got, path):
    """structure-only comparison for legacy artefacts: same member names and kinds (optional fields may be absent)"""
    OPTIONAL = {"metadata", "w_in", "start_dim", "end_dim", "input_type", "input_shape"}
    if exp[0] == "group":
        if got[0] != "group":
            return f"{path}: expected a group"
        extra = set(got[1]) - set(exp[1])
        missing = set(exp[1]) - set(got[1]) - OPTIONAL
        if extra or missing:
            return f"{path}: members in file {sorted(got[1])} vs documented {sorted(exp[1])}"
        for k in exp[1]:
            if k in got[1]:
                d = diff_names(exp[1][k], got[1][k], f"{path}/{k}")
                if d:
                    return d
        return None
    if exp[0] == "edges":
        return None if got[0] in ("edges", "num") else f"{path}: edges stored as {got[0]}"
    if exp[0] == "str" and got[0] not in ("str", "str-wrong-encoding"):
        return f"{path}: expected a string dataset"
    if exp[0] == "num" and got[0] != "num":
        return f"{path}: expected a numeric dataset, got {got[0]}"
    return None
