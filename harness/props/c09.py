"""C09 — Graph type check accepts exactly the consistent graphs."""
import itertools

import numpy as np

from .. import coqfmt as F
from .. import pyobs
from .common import Outcome, quiet, try_build

ID = "C09"
COQ_IMPORT = "Corr.CNodes"
COQ_CASE_TYPE = "g_case"
COQ_CHECK = "g_check"
THEOREMS = ["c09_sound_complete", "c09_never_false", "c09_order_independent", "c09_names_are_opaque"]
PROOF_FILES = ["Proofs/GraphProofs.v", "Proofs/RenameProofs.v"]
RULE = ("flat multigraphs of 1..8 leaf nodes, any topology (cycles, self-loops, parallel edges, dangling "
        "endpoints), with input_type/output_type ASSIGNED after construction from the alphabet {attribute None, "
        "{k: None}, shape of rank 0..4 as ndarray or tuple; equal / off-by-one / rank-different}; thorough: "
        "additionally exhaustive over <=3 nodes x <=3 edges x a 5-value alphabet. distinct = (types, edges); "
        "non-trivial = >= 2 edges or an undefined/mismatched type present")
ASSUMPTIONS = ["single input/output port per node, as in the property; multi-key type dictionaries are run "
               "against the model only (NotImplementedError path), without an oracle verdict"]


BIG = [100000, 200000, 300000, 1 << 20, 10 ** 9, (1 << 40) + 1, (1 << 53) + 1]


def rand_shape(rng):
    sh = [rng.choice([1, 2, 3, 4]) for _ in range(rng.choice([0, 1, 1, 2, 2, 3, 4]))]
    if sh and rng.random() < 0.15:       # large axes: an off-by-one there is a tiny RELATIVE difference
        sh[rng.randrange(len(sh))] = rng.choice(BIG)
    return sh


def rand_ty(rng, key, base):
    """a type description for one side; base = the 'right' shape"""
    r = rng.random()
    if r < 0.06:
        return None
    if r < 0.14:
        return [[key, None]]
    if r < 0.2:
        sh = list(base)
        if sh and rng.random() < 0.6:
            big = [j for j, x in enumerate(sh) if x >= 100000]
            i = rng.choice(big) if big else rng.randrange(len(sh)); sh[i] += rng.choice([1, -1, 2]) if sh[i] > 1 else 1
        else:
            sh = sh + [1] if rng.random() < 0.5 else sh[:-1] if sh else [1]
        return [[key, sh]]
    if r < 0.24:
        return [[key, list(base)], ["extra", list(base)]]
    if r < 0.4:
        return [[key, {"seq": list(base)}]]
    return [[key, list(base)]]


def leaf(tin, tout):
    return {"k": "Scale", "args": {"scale": np.ones(1, dtype="float32")}, "set_types": {"in": tin, "out": tout}}


def gen(rng, tier):
    cases = []
    if True:
        alpha = [None, [["input", None]], [["input", [2]]], [["input", [3]]], [["input", [2, 1]]]]
        names = ["a", "b", "c"]
        for n in ((1, 2) if tier == "thorough" else (1, 2)):
            pairs = list(itertools.product(names[:n], repeat=2))
            for tys in itertools.product(alpha, repeat=n):
                for ne in range(0, 3 if tier == "thorough" else 2):
                    for es in itertools.product(pairs, repeat=ne):
                        nodes = {}
                        for nm, t in zip(names, tys):
                            tout = None if t is None else [["output", t[0][1]]]
                            nodes[nm] = leaf(t, tout)
                        cases.append({"kind": "exh", "nodes_t": [[nm, nodes[nm]["set_types"]] for nm in nodes],
                                      "edges": [list(e) for e in es]})
    # near-equal large shapes: one axis differs by 1 or 2 out of >= 1e5 (equal only under a relative tolerance)
    for _ in range(60 if tier == "quick" else 600):
        base = [rng.choice([1, 2, 3]) for _ in range(rng.choice([1, 1, 2, 3]))]
        i = rng.randrange(len(base)); base[i] = rng.choice(BIG)
        other = list(base); other[i] += rng.choice([1, -1, 2, -2, 0])
        f1 = (lambda s: {"seq": list(s)}) if rng.random() < 0.2 else (lambda s: list(s))
        tys = [["a", {"in": [["input", f1(base)]], "out": [["output", f1(base)]]}],
               ["b", {"in": [["input", f1(other)]], "out": [["output", f1(other)]]}]]
        edges = rng.choice([[["a", "b"]], [["a", "a"], ["a", "b"]], [["a", "b"], ["b", "a"]], [["b", "b"], ["a", "b"], ["a", "b"]]])
        cases.append({"kind": "rand", "nodes_t": tys, "edges": edges})
    # shapes that differ only by trailing (or leading) axes of length 0 or 1; zero-length axes in general
    for _ in range(40 if tier == "quick" else 400):
        base = [rng.choice([0, 1, 2, 3, 5]) for _ in range(rng.choice([0, 1, 1, 2, 3]))]
        k = rng.choice([0, 1, 2])
        pad = [rng.choice([0, 0, 1])] * k
        other = rng.choice([base + pad, pad + base, base])
        f1 = (lambda s: {"seq": list(s)}) if rng.random() < 0.2 else (lambda s: list(s))
        tys = [["a", {"in": [["input", f1(base)]], "out": [["output", f1(base)]]}],
               ["b", {"in": [["input", f1(other)]], "out": [["output", f1(other)]]}]]
        edges = rng.choice([[["a", "b"]], [["b", "a"]], [["a", "a"], ["a", "b"]], [["a", "b"], ["b", "a"]]])
        cases.append({"kind": "rand", "nodes_t": tys, "edges": edges})
    # a node whose name is another node's name plus ".<suffix>" (flat graph, the two differ in shape), and shapes held in arrays
    # of narrow integer dtypes that are equal only modulo 2**bits
    for _ in range(24 if tier == "quick" else 240):
        a = rng.choice(["fc", "enc", "a", "block"])
        b = a + rng.choice([".gate", ".0", ".output", ".b.c"])
        sa, sb = [rng.choice([2, 3, 5])], [rng.choice([2, 3, 5, 7])]
        ty = lambda sh: {"in": [["input", list(sh)]], "out": [["output", list(sh)]]}
        mid = rng.choice([a, b])
        shapes = {a: sa, b: sb, "in": sa if mid == a else sb, "out": sa if mid == a else sb}
        if rng.random() < 0.5:
            shapes["out"] = sb if mid == a else sa        # a mismatch that the partner's shape would hide
        tys = [[n, ty(shapes[n])] for n in ["in", a, b, "out"]]
        rng.shuffle(tys)
        cases.append({"kind": "rand", "nodes_t": tys, "edges": [["in", mid], [mid, "out"]]})
    # value-equal shapes held in arrays of different numeric KIND (float against int, e.g. from 64 / 2): consistent
    for _ in range(16 if tier == "quick" else 160):
        sh = [rng.randint(1, 40) for _ in range(rng.choice([1, 2, 3]))]
        fl = {"nd": [float(x) for x in sh], "dt": rng.choice(["float64", "float32"])}
        other = list(sh)
        if rng.random() < 0.3:
            other[rng.randrange(len(other))] += 1
        tys = [["a", {"in": [["input", fl]], "out": [["output", fl]]}], ["b", {"in": [["input", other]], "out": [["output", other]]}]]
        if rng.random() < 0.5:
            tys.reverse()
        cases.append({"kind": "rand", "nodes_t": tys, "edges": rng.choice([[["a", "b"]], [["b", "a"]], [["a", "b"], ["b", "a"]]])})
    for _ in range(24 if tier == "quick" else 240):
        dt = rng.choice(["uint8", "int8", "int16", "uint16", "int32"])
        bits = np.dtype(dt).itemsize * 8
        small = [rng.randint(1, 9) for _ in range(rng.choice([1, 2, 3]))]
        big = list(small)
        i = rng.randrange(len(big)); big[i] += (1 << bits) * rng.choice([1, 1, 2])
        if rng.random() < 0.3:
            big = list(small)           # genuinely equal values in mixed dtypes: must be accepted
        narrow = {"nd": small, "dt": dt}
        if rng.random() < 0.5:
            tys = [["a", {"in": [["input", big]], "out": [["output", big]]}], ["b", {"in": [["input", narrow]], "out": [["output", narrow]]}]]
        else:
            tys = [["a", {"in": [["input", narrow]], "out": [["output", narrow]]}], ["b", {"in": [["input", big]], "out": [["output", big]]}]]
        cases.append({"kind": "rand", "nodes_t": tys, "edges": rng.choice([[["a", "b"]], [["a", "b"], ["b", "a"]]])})
    # names containing "->" (as used in error messages) in complementary positions: distinct edges whose textual rendering
    # "src->dst" coincides
    for _ in range(16 if tier == "quick" else 160):
        names = {"a": [3], "b->c": [3], "a->b": [rng.choice([3, 5])], "c": [rng.choice([3, 5, 5])]}
        ty = lambda sh: {"in": [["input", list(sh)]], "out": [["output", list(sh)]]}
        tys = [[n, ty(sh)] for n, sh in names.items()]
        if rng.random() < 0.3:
            tys[2][1]["out"] = [["output", None]]
        rng.shuffle(tys)
        edges = [["a->b", "c"], ["a", "b->c"]]
        if rng.random() < 0.5:
            edges.reverse()
        cases.append({"kind": "rand", "nodes_t": tys, "edges": edges})
    # very long sequential graphs (chain / ring of > 1000 nodes): any node count
    for j, kind in enumerate(["chain", "ring", "chain"] if tier == "quick" else ["chain", "ring", "chain", "ring", "chain", "ring"]):
        n = rng.choice([1100, 1300, 1700])
        sh = [rng.choice([1, 2, 3])]
        tys = [[f"n{i}", {"in": [["input", list(sh)]], "out": [["output", list(sh)]]}] for i in range(n)]
        edges = [[f"n{i}", f"n{i + 1}"] for i in range(n - 1)] + ([[f"n{n - 1}", "n0"]] if kind == "ring" else [])
        if j >= 2:                  # one mismatch deep inside
            tys[n - 7][1]["in"] = [["input", [sh[0] + 1]]]
        cases.append({"kind": "rand", "nodes_t": tys, "edges": edges})
    if tier == "thorough":
        N = 3000
    else:
        N = 420
    for _ in range(N):
        n = rng.randint(1, 8)
        names = [f"n{i}" for i in range(n)]
        consistent = rng.random() < 0.45
        base = rand_shape(rng)
        tys = []
        for nm in names:
            if consistent:
                form = (lambda s: {"seq": list(s)}) if rng.random() < 0.2 else (lambda s: list(s))
                tys.append([nm, {"in": [["input", form(base)]], "out": [["output", form(base)]]}])
            else:
                b2 = base if rng.random() < 0.8 else rand_shape(rng)
                tys.append([nm, {"in": rand_ty(rng, "input", b2), "out": rand_ty(rng, "output", b2)}])
        ne = rng.randint(0, min(12, 2 * n + 2))
        edges = []
        for _ in range(ne):
            a, b = rng.choice(names), rng.choice(names)
            if rng.random() < 0.03:
                b = "ghost"
            edges.append([a, b])
            if rng.random() < 0.1:
                edges.append([a, b])
        rng.shuffle(edges)
        c = {"kind": "rand", "nodes_t": tys, "edges": edges}
        if edges and rng.random() < 0.2:
            c["edge_lists"] = rng.choice([True, "mixed"])
        if rng.random() < 0.3:
            # a history on ONE graph object: check, re-assign some node types (names and edges unchanged), check again
            tys2 = []
            for nm, t in tys:
                if rng.random() < 0.4:
                    b2 = base if rng.random() < 0.6 else rand_shape(rng)
                    tys2.append([nm, {"in": rand_ty(rng, "input", b2), "out": rand_ty(rng, "output", b2)}])
                else:
                    tys2.append([nm, t])
            c["then"] = tys2
        cases.append(c)
    return cases


def recipe(c):
    r = {"k": "NIRGraph", "nodes": {nm: leaf(t["in"], t["out"]) for nm, t in c["nodes_t"]},
         "edges": [tuple(e) for e in c["edges"]]}
    if c.get("edge_lists"):
        r["edge_lists"] = c["edge_lists"]       # edges as 2-element lists (unhashable), or lists and tuples mixed
    return r


def defined_shape(t):
    """t: type description -> list of ints if it is a single-entry dict with a defined shape;
    'multi' for multi-key dictionaries; None for undefined"""
    if t is None:
        return None
    if len(t) != 1:
        return "multi"
    v = t[0][1]
    if v is None:
        return None
    if isinstance(v, dict) and "nd" in v:
        return [int(x) for x in np.array(v["nd"], dtype=v["dt"])]
    return list(v["seq"]) if isinstance(v, dict) else list(v)


def oracle_verdict(c, which="nodes_t"):
    """True / False (must raise) / None (outside the single-port quantifier)"""
    tys = dict((nm, t) for nm, t in c[which])
    ok = True
    for a, b in c["edges"]:
        if a not in tys or b not in tys:
            ok = False
            continue
        o, i = defined_shape(tys[a]["out"]), defined_shape(tys[b]["in"])
        if o == "multi" or i == "multi":
            return None
        if o is None or i is None or o != i:
            ok = False
    return ok


def run(c):
    r = recipe(c)
    res = try_build(r)
    if res[0] != "ok":
        return Outcome(f"(CCheck {pyobs.nexpr(r)} (Err OtherError))", f"graph construction raised {res[1]}", True, None)
    g = res[1]
    try:
        with quiet():
            v = g._check_types()
        obs = ("ok", v)
    except BaseException as e:  # noqa: BLE001
        obs = ("err", type(e).__name__)
    if obs[0] == "ok" and obs[1] is not True and obs[1] is not False:
        coq_obs = "(Ok false)"
    else:
        coq_obs = f"(Ok {F.cbool(obs[1])})" if obs[0] == "ok" else "(Err OtherError)"
    coq = f"(CCheck {pyobs.nexpr(r)} {coq_obs})"
    want = oracle_verdict(c)
    fail = None
    if want is True and obs != ("ok", True):
        fail = f"every edge is consistent but _check_types() gave {obs}: types {c['nodes_t']} edges {c['edges']}"
    elif want is False and obs[0] == "ok":
        fail = f"_check_types() returned {obs[1]!r} although an edge is mismatched/undefined/dangling: types {c['nodes_t']} edges {c['edges']}"
    if not fail and "then" in c:
        from ..values import mat_ty
        for nm, t in c["then"]:
            g.nodes[nm].input_type = mat_ty(t["in"])
            g.nodes[nm].output_type = mat_ty(t["out"])
        try:
            with quiet():
                obs2 = ("ok", g._check_types())
        except BaseException as e:  # noqa: BLE001
            obs2 = ("err", type(e).__name__)
        want2 = oracle_verdict(c, "then")
        if want2 is True and obs2 != ("ok", True):
            fail = (f"second check on the same graph object after re-assigning types: every edge is consistent but "
                    f"_check_types() gave {obs2}: types {c['then']} edges {c['edges']} (first: {c['nodes_t']})")
        elif want2 is False and obs2[0] == "ok":
            fail = (f"second check on the same graph object after re-assigning types returned {obs2[1]!r} although an edge is "
                    f"mismatched/undefined/dangling: types {c['then']} edges {c['edges']} (first: {c['nodes_t']})")
    sig = repr((c["nodes_t"], c["edges"], c.get("then")))
    nontriv = len(c["edges"]) >= 2 or want is False
    return Outcome(coq, fail, nontriv, sig)
