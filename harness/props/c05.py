"""C05 — Declared node types equal the shapes the primitive's mathematics implies."""
import io

import numpy as np

from .. import values as V
from .common import Outcome, cbuild, quiet, shape_form, try_build, tval

ID = "C05"
COQ_IMPORT = "Corr.CNodes"
COQ_CASE_TYPE = "g_case"
COQ_CHECK = "g_check"
THEOREMS = ["c05_matvec", "c05_matvec_functional", "c05_elementwise", "c05_all_same_means_equal",
            "c05_input", "c05_output", "c05_input_dict", "c05_output_dict"]
PROOF_FILES = ["Proofs/ShapesProofs.v", "Proofs/NodesProofs.v"]
RULE = ("every primitive with valid parameters: Affine/Linear weights of rank 2..5, element-wise parameters "
        "of rank 0..4, axis lengths 1..7, all 14 numeric dtypes; Input/Output shapes as ndarray/list/tuple/dict; "
        "observed directly, after NIRGraph.from_dict(to_dict()) and after read(write()) (the latter two: oracle "
        "only). Oracle: the documented equation really evaluated with numpy on zero tensors. "
        "distinct = (class, shapes, form, round-trip mode); non-trivial = rank >= 2 or a round trip")
ASSUMPTIONS = ["empty (rank-0) shape arrays are float64 in numpy and still count as the rank-0 shape",
               "a dict argument to Input/Output is the normal form {'input': ndarray}"]

DTYPES = ["float16", "float32", "float64", "int8", "int16", "int32", "int64", "uint8", "uint16",
          "uint32", "uint64", "bool", "complex64", "complex128"]
ELEMENTWISE = {"Scale": ["scale"], "Threshold": ["threshold"], "Delay": ["delay"], "I": ["r"],
               "IF": ["r", "v_threshold"], "LI": ["tau", "r", "v_leak"],
               "LIF": ["tau", "r", "v_leak", "v_threshold"],
               "CubaLIF": ["tau_syn", "tau_mem", "r", "v_leak", "v_threshold"]}


def gen(rng, tier):
    cases = []
    N = 260 if tier == "quick" else 4000
    for _ in range(N):
        r = rng.random()
        rt = rng.choice(["none", "none", "dict", "file"])
        dt = rng.choice(DTYPES)
        if r < 0.3:
            cls = rng.choice(["Affine", "Linear"])
            rank = rng.choice([2, 2, 3, 3, 4, 5])
            shape = [rng.randint(1, 7) for _ in range(rank)]
            cases.append({"kind": "matvec", "cls": cls, "shape": shape, "dt": dt, "rt": rt})
        elif r < 0.75:
            cls = rng.choice(list(ELEMENTWISE))
            rank = rng.choice([0, 1, 1, 2, 2, 3, 4])
            shape = [rng.randint(1, 7) for _ in range(rank)]
            cases.append({"kind": "elementwise", "cls": cls, "shape": shape, "dt": dt, "rt": rt,
                          "w_in": rng.choice(["default", "scalar", "full", "ones1"]) if cls == "CubaLIF" else None})
        else:
            cls = rng.choice(["Input", "Output"])
            rank = rng.choice([1, 1, 2, 3, 4])
            shape = [rng.randint(1, 9) for _ in range(rank)]
            form = rng.choice(["nd", "list", "tuple", "dict", "nd:int32", "nd:uint8"])
            cases.append({"kind": "io", "cls": cls, "shape": shape, "form": form, "rt": rt})
    # one file holding several nodes whose constant-filled parameters have the SAME dtype and bytes but different shapes
    for _ in range(16 if tier == "quick" else 200):
        cls = rng.choice(list(ELEMENTWISE))
        shape = rng.choice([[16, 8], [128], [2, 64], [4, 4, 8], [8, 16, 1], [256], [32, 8]])
        cases.append({"kind": "elementwise", "cls": cls, "shape": shape, "dt": rng.choice(["float32", "float64", "int64"]),
                      "rt": "file" if rng.random() < 0.8 else "dict", "w_in": "default" if cls == "CubaLIF" else None, "twins": True})
    # constructors called with type arguments already filled in (copy-with-one-field-changed idioms such as
    # dataclasses.replace pass the OLD node's types along): the declared types must still follow the parameters
    for _ in range(30 if tier == "quick" else 400):
        if rng.random() < 0.3:
            cls = "Affine"         # (Linear, Scale do not take type arguments)
            shape = [rng.randint(1, 5) for _ in range(rng.choice([2, 3]))]
            cases.append({"kind": "matvec", "cls": cls, "shape": shape, "dt": "float32", "rt": rng.choice(["none", "dict", "file"]), "stale": True})
        else:
            cls = rng.choice([k for k in ELEMENTWISE if k != "Scale"])
            shape = [rng.randint(1, 5) for _ in range(rng.choice([0, 1, 2, 3]))]
            cases.append({"kind": "elementwise", "cls": cls, "shape": shape, "dt": "float32", "rt": rng.choice(["none", "dict", "file"]),
                          "w_in": "default" if cls == "CubaLIF" else None, "stale": True})
    # parameters given as views with an unusual memory layout (cyclically permuted axes, fully broadcast, transposed)
    for _ in range(30 if tier == "quick" else 400):
        lay = rng.choice(["cyc", "cyc", "bcast0", "bcast0", "T", "sparse", "sparse", "matrix"])
        if rng.random() < 0.35:
            shape = [rng.randint(2, 5) for _ in range(rng.choice([3, 4]))]
            if lay in ("sparse", "matrix"):
                shape = [rng.randint(3, 6), rng.randint(4, 12)] if lay == "matrix" or rng.random() < 0.6 else shape
            cases.append({"kind": "matvec", "cls": rng.choice(["Affine", "Linear"]), "shape": shape, "dt": "float32",
                          "rt": rng.choice(["dict", "file", "file"]), "layout": lay})
        else:
            cls = rng.choice(list(ELEMENTWISE))
            shape = [rng.randint(2, 5) for _ in range(rng.choice([1, 2, 3, 3]))]
            cases.append({"kind": "elementwise", "cls": cls, "shape": shape, "dt": rng.choice(["float32", "float64"]),
                          "rt": rng.choice(["dict", "file", "file"]), "w_in": "default" if cls == "CubaLIF" else None, "layout": lay})
    for _ in range(4 if tier == "quick" else 40):
        cases.append({"kind": "matvec", "cls": rng.choice(["Affine", "Linear"]), "shape": [rng.randint(2, 6), rng.randint(2, 9)], "dt": "float64",
                      "rt": rng.choice(["none", "dict", "file"]), "layout": "matrix"})
    # CubaLIF with every admissible form of w_in (lower rank, length-1 axes, scalar, full)
    for _ in range(24 if tier == "quick" else 300):
        rank = rng.choice([1, 2, 2, 3])
        shape = [rng.randint(1, 5) for _ in range(rank)]
        cases.append({"kind": "elementwise", "cls": "CubaLIF", "shape": shape, "dt": rng.choice(["float32", "float64", "int32"]),
                      "rt": rng.choice(["none", "dict", "file"]), "w_in": rng.choice(["ones1", "ones1", "lead1", "scalar", "full"])})
    # Affine with a bias that broadcasts over the batch
    for _ in range(10 if tier == "quick" else 100):
        shape = [rng.randint(1, 4) for _ in range(rng.choice([3, 4]))]
        cases.append({"kind": "matvec", "cls": "Affine", "shape": shape, "dt": "float32", "rt": rng.choice(["none", "dict", "file"]),
                      "bias": rng.choice(["vec", "row1"])})
    # the node as a member of a GRAPH that also holds an un-annotated convolution: after a dictionary round trip of the graph the
    # node still declares what its own parameters imply (a scalar-parameter neuron behind a shaped layer keeps the empty shape)
    for _ in range(10 if tier == "quick" else 100):
        cases.append({"kind": "ingraph", "cls": rng.choice(["LIF", "IF", "LI", "I", "CubaLIF", "Scale", "Threshold", "Delay"]),
                      "shape": rng.choice([[], [], [3], [2, 6, 6]]), "dt": "float32", "rt": "dict", "nd": rng.choice([1, 2])})
    return cases


def run_ingraph(c):
    import nir
    sig = ("ingraph", c["cls"], tuple(c["shape"]), c["nd"])
    nd = c["nd"]
    fields = {"LIF": ["tau", "r", "v_leak", "v_threshold"], "IF": ["r", "v_threshold"], "LI": ["tau", "r", "v_leak"], "I": ["r"],
              "CubaLIF": ["tau_syn", "tau_mem", "r", "v_leak", "v_threshold"], "Scale": ["scale"], "Threshold": ["threshold"],
              "Delay": ["delay"]}[c["cls"]]
    try:
        with quiet():
            node = getattr(nir, c["cls"])(**{f: np.ones(c["shape"], dtype=c["dt"]) for f in fields})
            conv = (nir.Conv1d if nd == 1 else nir.Conv2d)(None, np.ones((3, 3) + (3,) * nd, dtype="float32"), 1, 0, 1, 1,
                                                            np.ones(3, dtype="float32"))
            g = nir.NIRGraph({"in": nir.Input(np.array([3] + [8] * nd)), "conv": conv, "n": node, "out": nir.Output(None)},
                             [("in", "conv"), ("conv", "n"), ("n", "out")])
            g2 = nir.NIRGraph.from_dict(g.to_dict())
    except BaseException as e:  # noqa: BLE001
        return Outcome(None, f"building / dictionary round trip of a graph with {c['cls']} raised {type(e).__name__}: {e}", True, sig)
    want = list(c["shape"])
    n2 = g2.nodes["n"]
    fail = check_type_dict(n2.input_type, "input", want) or check_type_dict(n2.output_type, "output", want)
    if fail:
        fail = f"{c['cls']} with parameters of shape {want} inside a graph, after from_dict(to_dict(graph)): {fail}"
    return Outcome(None, fail, True, sig)


def relayout(a, how):
    """same shape and values, unusual memory layout"""
    if how == "cyc" and a.ndim >= 3:
        return np.moveaxis(np.ascontiguousarray(np.moveaxis(a, 0, -1)), -1, 0)
    if how == "bcast0" and a.ndim >= 1 and a.size > 1:
        return np.broadcast_to(a.reshape(-1)[:1].reshape([1] * a.ndim), a.shape)
    if how == "T" and a.ndim >= 2:
        return np.ascontiguousarray(a.T).T
    if how == "sparse" and a.size >= 10:
        # mostly zeros, the only non-zero entries in the first row / column / slice (the far corner is all zero)
        b = np.zeros_like(a)
        b.reshape(-1)[0] = 1
        return b
    if how == "matrix" and a.ndim == 2:
        return np.asmatrix(a)          # an ndarray subclass whose slices stay 2-d
    return a


def recipe(c):
    r = recipe0(c)
    if c.get("layout"):
        r["args"] = {k: (relayout(v, c["layout"]) if isinstance(v, np.ndarray) else v) for k, v in r["args"].items()}
    if c.get("stale"):
        r["args"]["input_type"] = {"input": np.array([9, 9])}
        r["args"]["output_type"] = {"output": np.array([7])}
    return r


def recipe0(c):
    if c["kind"] == "matvec":
        w = np.zeros(c["shape"], dtype=c["dt"])
        args = {"weight": w}
        if c["cls"] == "Affine":
            args["bias"] = np.zeros(c["shape"][-2], dtype=c["dt"])
            if c.get("bias") == "row1":
                args["bias"] = np.zeros((1, c["shape"][-2]), dtype=c["dt"])
        return {"k": c["cls"], "args": args}
    if c["kind"] == "elementwise":
        args = {p: np.ones(c["shape"], dtype=c["dt"]) for p in ELEMENTWISE[c["cls"]]}
        if c["cls"] == "CubaLIF":
            if c["w_in"] == "scalar":
                args["w_in"] = 0.5
            elif c["w_in"] == "full":
                args["w_in"] = np.ones(c["shape"], dtype="float32")
            elif c["w_in"] == "ones1" and len(c["shape"]) >= 1:
                args["w_in"] = np.ones(c["shape"][-1:], dtype="float32")
            elif c["w_in"] == "lead1" and len(c["shape"]) >= 1:
                args["w_in"] = np.ones([1] + list(c["shape"][1:]), dtype="float32")
        return {"k": c["cls"], "args": args}
    form = c["form"]
    if c["cls"] == "Output" and form == "dict":
        form = "dict_out"
    key = "input_type" if c["cls"] == "Input" else "output_type"
    return {"k": c["cls"], "args": {key: shape_form(c["shape"], form)}}


def check_type_dict(t, key, want):
    if not isinstance(t, dict) or list(t.keys()) != [key]:
        return f"not a single-entry dict keyed '{key}': {t!r}"
    v = t[key]
    if not isinstance(v, np.ndarray):
        return f"value under '{key}' is {type(v).__name__}, not ndarray: {v!r}"
    if v.size and v.dtype.kind not in "iu":
        return f"value under '{key}' is not an integer array: dtype {v.dtype}"
    if [int(x) for x in v] != list(want):
        return f"'{key}' is {v.tolist()}, the mathematics implies {list(want)}"
    return None


def math_shapes(c, node):
    """really evaluate the documented equation with numpy on zero tensors -> (input shape, output shape)"""
    if c["kind"] == "matvec":
        W = np.asarray(node.weight)          # (a numpy.matrix weight is its plain 2-d array for the mathematics)
        W = W.astype("float64") if W.dtype.kind != "c" else W
        b = W.shape[:-2]
        x = np.zeros(b + (W.shape[-1],))
        y = np.matmul(W, x[..., None])[..., 0]
        if c["cls"] == "Affine":
            y = y + np.asarray(node.bias)
        return x.shape, y.shape
    if c["kind"] == "elementwise":
        p = getattr(node, ELEMENTWISE[c["cls"]][-1])
        x = np.zeros(np.shape(p))
        y = x * np.asarray(p).astype("float64" if np.asarray(p).dtype.kind != "c" else "complex128")
        return x.shape, y.shape
    return tuple(c["shape"]), tuple(c["shape"])


def run(c):
    import nir
    if c["kind"] == "ingraph":
        return run_ingraph(c)
    r = recipe(c)
    res = try_build(r)
    sig = (c["cls"], tuple(c["shape"]), c.get("form"), c.get("dt"), c["rt"], c.get("w_in"), c.get("bias"), c.get("twins"), c.get("stale"), c.get("layout"))
    nontriv = len(c["shape"]) >= 2 or c["rt"] != "none"
    coq = cbuild(r, res) if c["rt"] == "none" and not c.get("stale") else None
    if res[0] != "ok":
        return Outcome(coq, f"{c['cls']} with valid parameters {c} raised {res[1]}", nontriv, sig)
    node = res[1]
    # the shapes the mathematics implies are those of the parameters AS GIVEN (a round trip must not change them)
    xin, yout = math_shapes(c, node)
    try:
        if c["rt"] != "none":
            with quiet():
                nodes = {"n": node}
                if c.get("twins"):
                    # companions with byte-identical parameters of another shape, one stored before and one after "n"
                    flat = int(np.prod(c["shape"]))
                    nodes = {"a0": nir.Scale(scale=np.ones(flat, dtype=c["dt"])), "n": node,
                             "z9": nir.Threshold(threshold=np.ones(list(reversed(c["shape"])) + [1], dtype=c["dt"]))}
                g = nir.NIRGraph(nodes=nodes, edges=[])
                if c["rt"] == "dict":
                    g2 = nir.NIRGraph.from_dict(g.to_dict())
                else:
                    bio = io.BytesIO()
                    nir.write(bio, g)
                    g2 = nir.read(bio)
            node = g2.nodes["n"]
            if c.get("twins"):
                for nm, want in (("a0", [int(np.prod(c["shape"]))]), ("z9", list(reversed(c["shape"])) + [1])):
                    f2 = check_type_dict(g2.nodes[nm].input_type, "input", want) or check_type_dict(g2.nodes[nm].output_type, "output", want)
                    if f2:
                        return Outcome(coq, f"{c['cls']}({c['shape']}, dtype={c['dt']}) stored next to nodes with byte-identical parameters "
                                            f"of another shape, after={c['rt']}: companion {nm}: {f2}", nontriv, sig)
    except BaseException as e:  # noqa: BLE001
        return Outcome(coq, f"round trip ({c['rt']}) of {c['cls']} {c['shape']} raised {type(e).__name__}: {e}", nontriv, sig)
    fail = check_type_dict(node.input_type, "input", xin) or check_type_dict(node.output_type, "output", yout)
    if fail:
        fail = (f"{c['cls']}({c['shape']}, form={c.get('form')}, dtype={c.get('dt')}, after={c['rt']}"
                f"{', constructor given stale type arguments' if c.get('stale') else ''}): {fail}")
    return Outcome(coq, fail, nontriv, sig)
