"""C07 — Flatten shape arithmetic matches array-flatten semantics."""
import itertools

import numpy as np

from .. import coqfmt as F
from .common import (Outcome, cbuild, cinfer, ints_or_none, res_list, run_infer, shape_form,
                     try_build, tval)

ID = "C07"
COQ_IMPORT = "Corr.C07"
COQ_CASE_TYPE = "c07_case"
COQ_CHECK = "c07_check"
THEOREMS = ["c07_flatten_merges", "c07_preserves_element_count", "c07_rank",
            "c07_construct_agrees", "c07_construct_agrees_dict", "c07_infer_agrees"]
PROOF_FILES = ["Proofs/ShapesProofs.v", "Proofs/NodesProofs.v"]
RULE = ("shapes of rank 1..5 (axis lengths from {1,2,3,5,7}) x (start_dim,end_dim) in [-n,n)^2 "
        "(valid pairs: oracle + model; invalid / out-of-range pairs: model only) x entry point "
        "{calc_flatten_output, Flatten(...), infer_types on Input->Flatten(None)->Output(None)} x "
        "argument form {ndarray, list, tuple, dict}; distinct = distinct (kind, form, shape, s, e); "
        "non-trivial = rank >= 2 and the merged range covers >= 2 axes or a negative index is used")
ASSUMPTIONS = ["np.prod does not wrap: shapes with >= 2^63 elements are outside the claim",
               "numpy slicing of a 1-d array agrees with Python list slicing (exercised by every case)"]


def expected(shape, s, e):
    """independent oracle: merge dims a..b with Python ints; None if (s,e) is not a valid pair"""
    n = len(shape)
    if not (-n <= s < n and -n <= e < n):
        return None
    a = s + n if s < 0 else s
    b = e + n if e < 0 else e
    if a > b:
        return None
    prod = 1
    for x in shape[a:b + 1]:
        prod *= x
    out = list(shape[:a]) + [prod] + list(shape[b + 1:])
    # what reshaping a real array that way yields
    total = 1
    for x in shape:
        total *= x
    if total <= 2_000_000:
        assert list(np.zeros(shape, dtype=np.int8).reshape(out).shape) == out
    return out


def gen(rng, tier):
    cases = []
    lens = [1, 2, 3, 5, 7]
    def mk(kind, form, shape, s, e):
        return {"kind": kind, "form": form, "shape": list(shape), "s": s, "e": e}
    if tier == "thorough":
        for n in range(1, 6):
            for shape in itertools.product([1, 2, 3, 5], repeat=n):
                if n >= 4 and rng.random() > 0.15:
                    continue
                for s in range(-n, n):
                    for e in range(-n, n):
                        form = rng.choice(["nd", "list", "tuple"])
                        cases.append(mk("util", form, shape, s, e))
                        if rng.random() < 0.3:
                            cases.append(mk("construct", rng.choice(["nd", "list", "tuple", "dict"]), shape, s, e))
                        if rng.random() < 0.1:
                            cases.append(mk("infer", "nd", shape, s, e))
        budget = 0
    else:
        budget = 450
    for _ in range(budget):
        n = rng.choice([1, 2, 2, 3, 3, 4, 4, 5])
        shape = [rng.choice(lens) for _ in range(n)]
        r = rng.random()
        if r < 0.8:    # valid pair
            a = rng.randrange(n); b = rng.randrange(a, n)
            s = a - n if rng.random() < 0.4 else a
            e = b - n if rng.random() < 0.4 else b
        elif r < 0.9:  # in range but start > end
            s = rng.randrange(-n, n); e = rng.randrange(-n, n)
        else:          # out of range
            s = rng.randrange(-n - 2, n + 3); e = rng.randrange(-n - 2, n + 3)
        kind = rng.choice(["util", "util", "construct", "construct", "infer"])
        form = rng.choice(["nd", "list", "tuple"] + (["dict", "dict_tuple", "dict_list"] if kind == "construct" else []))
        if kind == "infer":
            form = "nd"
        cases.append(mk(kind, form, shape, s, e))
        if kind == "infer" and rng.random() < 0.3:
            cases[-1]["preset"] = True
        elif kind == "infer" and rng.random() < 0.35:
            cases[-1]["loop"] = True
    # ndarray shapes of narrow integer dtypes whose merged product exceeds the dtype's range
    for _ in range(40 if tier == "quick" else 600):
        dt = rng.choice(["int8", "uint8", "int16", "uint16", "int32"])
        n = rng.choice([2, 3, 4])
        big = {"int8": [8, 16, 4, 12], "uint8": [16, 32, 20], "int16": [200, 128, 64], "uint16": [256, 300, 64], "int32": [70000, 40000, 3]}[dt]
        shape = [rng.choice(big) for _ in range(n)]
        a = rng.randrange(n); b = rng.randrange(a, n)
        kind = rng.choice(["util", "construct", "construct", "infer"])
        cases.append(mk(kind, "nd:" + dt, shape, rng.choice([a, a - n]), rng.choice([b, b - n])))
    # merged ranges made of singleton axes only (the merged axis has length 1)
    for _ in range(20 if tier == "quick" else 200):
        n = rng.choice([2, 3, 4])
        shape = [rng.choice([1, 1, 1, 7]) for _ in range(n)]
        a = rng.randrange(n); b = rng.randrange(a, n)
        cases.append(mk(rng.choice(["util", "construct", "infer"]), rng.choice(["nd", "list", "tuple"]), shape, a, b))
    # inference of a Flatten that sits directly behind a convolution / pooling / element-wise node (which keep the shape
    # here: 1x1 kernels, stride 1) — the predecessor's class must not matter
    for _ in range(60 if tier == "quick" else 600):
        n = rng.choice([2, 3, 3, 3, 4])
        shape = [rng.choice([2, 3, 5, 6]) for _ in range(n)]
        a = rng.randrange(n); b = rng.randrange(a, n)
        c = mk("infer", "nd", shape, rng.choice([a, a - n]), rng.choice([b, b - n]))
        c["pre"] = rng.choice({2: ["conv1d", "scale"], 3: ["conv2d", "sumpool", "avgpool", "conv2d", "sumpool"], 4: ["scale"]}[n])
        cases.append(c)
    # a Flatten directly behind ANOTHER (typed) Flatten with the same dims: flattening twice is not the identity when the dims are
    # negative ([2,3,4] -(-2,-1)-> [2,12] -(-2,-1)-> [24]); the second one is typed by inference from what the first declares
    for _ in range(24 if tier == "quick" else 240):
        n0 = rng.choice([3, 3, 4])
        x = [rng.choice([2, 3, 5]) for _ in range(n0)]
        sd = rng.choice([-2, -2, -3, 0, 1]) if n0 > 3 else rng.choice([-2, -2, 0, 1])
        ed = -1
        mid = expected(x, sd, ed)
        if mid is None or expected(mid, sd, ed) is None:
            continue
        c = mk("infer", "nd", mid, sd, ed)
        c["pre"] = "flatten"
        c["preshape"] = x
        cases.append(c)
    # constructor called with an output_type already filled in (a node derived from another Flatten, e.g. by
    # dataclasses.replace(node, start_dim=...), carries the old output type along): it must be recomputed
    for _ in range(30 if tier == "quick" else 300):
        n = rng.choice([2, 3, 3, 4])
        shape = [rng.choice(lens) for _ in range(n)]
        a = rng.randrange(n); b = rng.randrange(a, n)
        c = mk("construct", rng.choice(["nd", "list", "tuple"]), shape, rng.choice([a, a - n]), rng.choice([b, b - n]))
        c["stale"] = rng.choice(["full", "same"])
        cases.append(c)
    # malformed stream
    cases.append(mk("util", "list", [], 0, -1))
    cases.append(mk("construct", "nd", [2, 3], 5, 7))
    return cases


def recipe_for(c):
    if c["kind"] == "construct":
        args = {"input_type": shape_form(c["shape"], c["form"]), "start_dim": c["s"], "end_dim": c["e"]}
        if c.get("stale"):
            total = int(np.prod(c["shape"]))
            args["output_type"] = {"output": np.array([total] if c["stale"] == "full" else list(c["shape"]))}
        return {"k": "Flatten", "args": args}
    nodes = {"in": {"k": "Input", "args": {"input_type": shape_form(c["shape"], c["form"] if c["form"].startswith("nd") else "nd")}}}
    edges = [("in", "fl"), ("fl", "out")]
    pre = c.get("pre")
    if pre == "flatten":
        nodes["in"] = {"k": "Input", "args": {"input_type": np.array(c["preshape"], dtype=np.int64)}}
        nodes["pre"] = {"k": "Flatten", "args": {"input_type": np.array(c["preshape"], dtype=np.int64), "start_dim": c["s"], "end_dim": c["e"]}}
        edges = [("in", "pre"), ("pre", "fl"), ("fl", "out")]
    elif pre:
        ch = c["shape"][0]
        one = np.array([1, 1]); zero = np.array([0, 0])
        nodes["pre"] = {
            "conv1d": lambda: {"k": "Conv1d", "args": {"input_shape": None, "weight": np.ones((ch, ch, 1), dtype="float32"), "stride": 1,
                                                       "padding": 0, "dilation": 1, "groups": 1, "bias": np.zeros(ch, dtype="float32")}},
            "conv2d": lambda: {"k": "Conv2d", "args": {"input_shape": None, "weight": np.ones((ch, ch, 1, 1), dtype="float32"), "stride": 1,
                                                       "padding": 0, "dilation": 1, "groups": 1, "bias": np.zeros(ch, dtype="float32")}},
            "sumpool": lambda: {"k": "SumPool2d", "args": {"kernel_size": one, "stride": one, "padding": zero}},
            "avgpool": lambda: {"k": "AvgPool2d", "args": {"kernel_size": one, "stride": one, "padding": zero}},
            "scale": lambda: {"k": "Scale", "args": {"scale": np.ones(tuple(c["shape"]), dtype="float32")}},
        }[pre]()
        edges = [("in", "pre"), ("pre", "fl"), ("fl", "out")]
    nodes["fl"] = {"k": "Flatten", "args": {"input_type": None, "start_dim": c["s"], "end_dim": c["e"]}}
    nodes["out"] = {"k": "Output", "args": {"output_type": None}}
    if c.get("loop"):
        # a recurrent block of two nodes in front of the Flatten (type-consistent): in -> a, a -> b, b -> a, a -> fl
        sh = tuple(int(x) for x in c["shape"])
        import math as _m
        if _m.prod(sh) <= 4096 and not pre:
            nodes["ra"] = {"k": "Scale", "args": {"scale": np.ones(sh, dtype="float32")}}
            nodes["rb"] = {"k": "Threshold", "args": {"threshold": np.ones(sh, dtype="float32")}}
            edges = [("in", "ra"), ("ra", "rb"), ("rb", "ra"), ("ra", "fl"), ("fl", "out")]
    return {"k": "NIRGraph", "nodes": nodes, "edges": edges}


def run(c):
    import nir
    from nir.ir.utils import calc_flatten_output
    shape, s, e = c["shape"], c["s"], c["e"]
    exp = expected(shape, s, e)
    n = len(shape)
    a = s + n if s < 0 else s
    b = e + n if e < 0 else e
    nontriv = exp is not None and n >= 2 and (b > a or s < 0 or e < 0)
    sig = (c["kind"], c["form"], tuple(shape), s, e, c.get("pre"), c.get("stale"), c.get("preset"), c.get("loop"), tuple(c.get("preshape", ())))
    fail = None
    if c["kind"] == "util":
        try:
            out = calc_flatten_output(shape_form(shape, c["form"]), s, e)
            obs = ("ok", ints_or_none(out))
        except BaseException as ex:  # noqa: BLE001
            obs = ("err", type(ex).__name__)
        coq = f"(FlatUtil {F.czlist(shape)} {F.cz(s)} {F.cz(e)} {res_list(obs)})"
        if exp is not None and obs != ("ok", exp):
            fail = f"calc_flatten_output({shape}, {s}, {e}) -> {obs}, reshaping a real array gives {exp}"
        elif exp is not None and isinstance(out, np.ndarray) and out.size:
            # the result is a function of the arguments, not of what a caller did with an earlier result
            try:
                out[...] = 77
                again = ints_or_none(calc_flatten_output(shape_form(shape, c["form"]), s, e))
            except BaseException as ex:  # noqa: BLE001
                again = type(ex).__name__
            if again != exp:
                fail = (f"calc_flatten_output({shape}, {s}, {e}) -> {again} after an earlier result of the same call was "
                        f"overwritten in place; expected {exp}")
        return Outcome(coq, fail, nontriv, sig)
    r = recipe_for(c)
    if c["kind"] == "construct":
        res = try_build(r)
        coq = f"(FlatG {cbuild(r, res)})" if not c.get("stale") else None
        if exp is not None:
            if res[0] != "ok":
                fail = f"Flatten({shape}, {s}, {e}) [{c['form']}] raised {res[1]}; expected output {exp}"
            else:
                got = tval(res[1].output_type, "output")
                if got != exp or not isinstance(res[1].output_type["output"], np.ndarray):
                    fail = f"Flatten({shape}, {s}, {e}) [{c['form']}].output_type = {res[1].output_type}, expected {exp}"
                elif tval(res[1].input_type, "input") != list(shape):
                    fail = f"Flatten({shape}).input_type = {res[1].input_type}"
                if not fail and not c.get("stale"):
                    # ... and survives serialisation: dictionary form and file
                    import io
                    import nir as _nir
                    from .common import quiet as _quiet
                    for how in ("dict", "file"):
                        try:
                            with _quiet():
                                g0 = _nir.NIRGraph(nodes={"f": try_build(r)[1]}, edges=[])
                                if how == "dict":
                                    g1 = _nir.NIRGraph.from_dict(g0.to_dict())
                                else:
                                    bio = io.BytesIO()
                                    _nir.write(bio, g0)
                                    g1 = _nir.read(bio)
                            got4 = tval(g1.nodes["f"].output_type, "output")
                            if got4 != exp:
                                fail = f"Flatten({shape}, {s}, {e}) [{c['form']}] after a {how} round trip declares output {got4}, expected {exp}"
                        except BaseException as ex:  # noqa: BLE001
                            fail = f"Flatten({shape}, {s}, {e}) [{c['form']}]: {how} round trip raised {type(ex).__name__}: {ex}"
                        if fail:
                            break
                if not fail and not c.get("stale"):
                    # the typed node as LAST element of from_list (the auto Output is built from its type), the graph then extended
                    # so that another, differently shaped node also feeds the Output, and inferred: the Flatten's own declaration
                    # must still be what construction computed
                    import nir
                    from .common import quiet
                    try:
                        with quiet():
                            node2 = try_build(r)[1]
                            g = nir.NIRGraph.from_list(node2)
                            g.nodes["late"] = nir.Input(np.array([sum(exp) + 1]))
                            g.edges.append(("late", "output"))
                            try:
                                g.infer_types()
                            except Exception:
                                pass
                        got3 = tval(node2.output_type, "output")
                        if got3 != exp:
                            fail = (f"Flatten({shape}, {s}, {e}) as last element of from_list, graph extended by a second producer for the "
                                    f"Output and inferred: the Flatten now declares {got3}, construction and the utility say {exp}")
                    except BaseException as ex:  # noqa: BLE001
                        fail = f"from_list(Flatten({shape}, {s}, {e})) + extension raised {type(ex).__name__}: {ex}"
                if not fail:
                    # a second, independently built node must not depend on what happened to the first one's types
                    res[1].output_type["output"][...] = 77
                    res2 = try_build(r)
                    got2 = tval(res2[1].output_type, "output") if res2[0] == "ok" else res2[1]
                    if got2 != exp:
                        fail = (f"a second Flatten({shape}, {s}, {e}) built after the first one's output type was overwritten "
                                f"in place has output {got2}, expected {exp}")
        return Outcome(coq, fail, nontriv, sig)
    if c.get("preset"):
        # the Flatten is created without a type; its input_type is then assigned by hand (same value the predecessor has) and
        # the graph inferred: the output must be derived all the same
        from .common import quiet as _q, time_limit as _tl, Timeout as _TO
        b = try_build(r)
        if b[0] == "ok":
            g0 = b[1]
            g0.nodes["fl"].input_type = {"input": np.array(shape, dtype=np.int64)}
            raised, name = False, None
            try:
                with _tl(10), _q():
                    g0.infer_types()
            except _TO:
                raise
            except BaseException as ex:  # noqa: BLE001
                raised, name = True, type(ex).__name__
            res = ("ok", g0, raised, name)
        else:
            res = b
    else:
        res = run_infer(r)
    coq = f"(FlatG {cinfer(r, res)})"
    if exp is not None:
        if res[0] != "ok" or res[2]:
            fail = f"infer_types on Input({shape})->{c.get('pre') or ''}->Flatten(None,{s},{e})->Output(None) raised {res[-1]}"
        else:
            g = res[1]
            got = tval(g.nodes["fl"].output_type, "output")
            if got != exp:
                fail = f"inferred Flatten output {got}, expected {exp} for shape {shape}, dims ({s},{e}), predecessor {c.get('pre') or 'Input'}"
            elif tval(g.nodes["out"].output_type, "output") != exp or tval(g.nodes["out"].input_type, "input") != exp:
                fail = f"Output node not typed {exp} after inference: {g.nodes['out'].input_type} {g.nodes['out'].output_type}"
            elif tval(g.nodes["fl"].input_type, "input") != list(shape):
                fail = f"Flatten input not typed {shape}: {g.nodes['fl'].input_type}"
    return Outcome(coq, fail, nontriv, sig)
