"""C02 — Tensor parameters survive serialisation bit-for-bit."""
import io
import os
import pathlib
import shutil
import tempfile

import numpy as np

from .. import values as V
from .common import Outcome, quiet
from .sercommon import cops

ID = "C02"
COQ_IMPORT = "Corr.CNodes"
COQ_CASE_TYPE = "g_case"
COQ_CHECK = "g_check"
THEOREMS = ["c02_read_sees_normalised_dict", "c02_arrays_identical", "c02_zero_dim", "c02_fields_are_in_the_dictionary"]
PROOF_FILES = ["Proofs/SerialProofs.v"]
RULE = ("cross product dtype (14) x rank 0..5 x shape pool (incl. (0,), (0,3), ()) x value class {NaN payloads both "
        "signs, all-(+/-)zero with some -0, subnormals, infinities, integer extremes, all-ones bit pattern, random} x "
        "memory layout {C, Fortran, reversed, stepped, transposed, broadcast view} x array-valued field of each "
        "primitive x file target {str path, pathlib.Path, io.BytesIO, tempfile}; quick: ~420 sampled combinations with "
        "every dtype x layout pair covered; thorough: dtype x layout x value class x target exhaustively. Oracle: "
        "np.asarray(field).dtype/.shape/.tobytes() before write vs after read. distinct = description tuple; "
        "non-trivial = not (C layout and random values and rank 1)")
ASSUMPTIONS = ["law A1: h5py/libhdf5 store dtype, shape and bytes of an ndarray unchanged — the model cannot exhibit a "
               "libhdf5 conversion; this run is what exercises it"]

DTYPES = ["longlong", "ulonglong", "float16", "float32", "float64", "int8", "int16", "int32", "int64", "uint8", "uint16",
          "uint32", "uint64", "bool", "complex64", "complex128"]
LAYOUTS = ["C", "F", "rev", "step", "T", "bcast"]
VALS = ["nan", "zeros", "subnormal", "inf", "extreme", "ones", "random"]
TARGETS = ["str", "path", "bytesio", "tempfile", "bytesio_used", "tempfile_used"]
SHAPES = [[], [1], [3], [0], [0, 3], [2, 3], [2, 1, 3], [1, 2, 2, 2], [2, 1, 1, 2, 2], [4, 1]]
FIELDS = [("Affine", "weight"), ("Affine", "bias"), ("Linear", "weight"), ("Scale", "scale"), ("Delay", "delay"),
          ("Threshold", "threshold"), ("I", "r"), ("IF", "v_threshold"), ("LI", "tau"), ("LIF", "v_leak"),
          ("CubaLIF", "tau_syn"), ("CubaLIF", "w_in"), ("Conv1d", "weight"), ("Conv1d", "bias"), ("Conv2d", "weight"),
          ("Conv2d", "bias"), ("SumPool2d", "kernel_size"), ("AvgPool2d", "stride"), ("Input", "shape"),
          ("meta", "metadata")]
ELEMENTWISE = {"Scale": ["scale"], "Threshold": ["threshold"], "Delay": ["delay"], "I": ["r"],
               "IF": ["r", "v_threshold"], "LI": ["tau", "r", "v_leak"],
               "LIF": ["tau", "r", "v_leak", "v_threshold"],
               "CubaLIF": ["tau_syn", "tau_mem", "r", "v_leak", "v_threshold"]}


def raw_values(dt, n, vclass, seed):
    rs = np.random.RandomState(seed % (2 ** 31))
    d = np.dtype(dt)
    if d.kind == "b":
        return rs.randint(0, 2, n).astype(bool)
    if vclass == "ones":
        return np.frombuffer(b"\xff" * (n * d.itemsize), dtype=d).copy()
    if vclass == "random" or (d.kind in "iu" and vclass in ("nan", "subnormal", "inf")):
        return np.frombuffer(rs.bytes(n * d.itemsize), dtype=d).copy()
    if d.kind in "iu":
        info = np.iinfo(d)
        pool = [info.min, info.max, 0] if vclass == "extreme" else [0]
        return np.array([pool[i % len(pool)] for i in range(n)], dtype=d)
    base = {"float16": np.float16, "float32": np.float32, "float64": np.float64,
            "complex64": np.float32, "complex128": np.float64}[dt]
    m = n * (2 if d.kind == "c" else 1)
    bits = {np.float16: (np.uint16, 15, 10), np.float32: (np.uint32, 31, 23), np.float64: (np.uint64, 63, 52)}[base]
    ut, signbit, mant = bits
    out = np.zeros(m, dtype=ut)
    expmask = ((1 << (signbit - mant)) - 1) << mant
    for i in range(m):
        sign = (1 << signbit) if (i % 2 == 1) else 0
        if vclass == "nan":
            payload = 1 + (int(rs.randint(1, 2 ** 9)) % ((1 << mant) - 1))
            v = sign | expmask | payload
        elif vclass == "zeros":
            v = sign
        elif vclass == "subnormal":
            v = sign | (1 + int(rs.randint(0, 2 ** 9)))
        elif vclass == "inf":
            v = sign | expmask
        else:  # extreme
            v = sign | (expmask - (1 << mant)) | ((1 << mant) - 1)
        out[i] = v
    return out.view(base).view(d) if d.kind == "c" else out.view(base)


def make_array(c):
    shape = list(c["shape"])
    n = int(np.prod(shape)) if shape else 1
    flat = raw_values(c["dt"], max(n, 0), c["val"], c["seed"])[:n]
    a = flat.reshape(shape)
    lay = c["layout"]
    if lay == "F":
        return np.asfortranarray(a)
    if lay == "rev" and a.ndim >= 1:
        return np.ascontiguousarray(a[::-1])[::-1]
    if lay == "step" and a.ndim >= 1:
        big = np.zeros([shape[0] * 2] + shape[1:], dtype=a.dtype)
        big[::2] = a
        return big[::2]
    if lay == "T" and a.ndim >= 2:
        return np.ascontiguousarray(a.T).T
    if lay == "bcast" and a.ndim >= 1 and shape[0] >= 1:
        return np.broadcast_to(a[:1], a.shape)
    return a


def recipe_with(c, arr):
    cls, field = c["cls"], c["field"]
    f32 = lambda s: np.ones(s, dtype="float32")
    if cls == "meta":
        node = {"k": "Scale", "args": {"scale": f32([2]), "metadata": {"blob": arr, "sub": {"deep": arr}}}}
    elif cls in ELEMENTWISE:
        args = {p: (arr if p == field else np.ones(arr.shape, dtype="float32")) for p in ELEMENTWISE[cls]}
        if field == "w_in":
            args = {p: np.ones(arr.shape, dtype=arr.dtype) for p in ELEMENTWISE[cls]}
            args["w_in"] = arr
        node = {"k": cls, "args": args}
    elif cls in ("Affine", "Linear"):
        if field == "weight":
            if arr.ndim < 2:
                return None
            args = {"weight": arr}
            if cls == "Affine":
                args["bias"] = f32([arr.shape[-2]])
        else:
            args = {"weight": f32([2, 2]), "bias": arr}
        node = {"k": cls, "args": args}
    elif cls in ("Conv1d", "Conv2d"):
        nd = 1 if cls == "Conv1d" else 2
        if field == "weight":
            if arr.ndim != nd + 2:
                return None
            w, b = arr, f32([2])
        else:
            w, b = f32([2, 1] + [1] * nd), arr
        node = {"k": cls, "args": {"input_shape": None, "weight": w, "stride": 1, "padding": 0, "dilation": 1,
                                   "groups": 1, "bias": b}}
        node["args"]["input_shape"] = 5 if nd == 1 else (5, 5)
        if field == "weight" and (any(s == 0 for s in arr.shape)):
            return None
    elif cls in ("SumPool2d", "AvgPool2d"):
        args = {"kernel_size": np.array([2, 2]), "stride": np.array([2, 2]), "padding": np.array([0, 0])}
        args[field] = arr
        node = {"k": cls, "args": args}
    else:  # Input shape
        if arr.ndim != 1 or arr.dtype.kind not in "iu":
            return None
        node = {"k": "Input", "args": {"input_type": arr}}
    return {"k": "NIRGraph", "nodes": {"n": node}, "edges": []}


def gen(rng, tier):
    cases = []
    seen = set()
    def add(dt, lay, val, tgt, shape=None, fld=None):
        cls, field = fld or rng.choice(FIELDS)
        c = {"kind": "arr", "cls": cls, "field": field, "dt": dt, "shape": shape if shape is not None else rng.choice(SHAPES),
             "layout": lay, "val": val, "target": tgt, "seed": rng.randrange(2 ** 30)}
        cases.append(c)
    for dt in DTYPES:
        for lay in LAYOUTS:
            add(dt, lay, rng.choice(VALS), rng.choice(TARGETS))
    for fld in FIELDS:
        for _ in range(3):
            add(rng.choice(DTYPES), rng.choice(LAYOUTS), rng.choice(VALS), rng.choice(TARGETS), fld=fld)
    if tier == "thorough":
        for dt in DTYPES:
            for lay in LAYOUTS:
                for val in VALS:
                    for tgt in TARGETS:
                        add(dt, lay, val, tgt)
        N = 1500
    else:
        N = 280
    for _ in range(N):
        add(rng.choice(DTYPES), rng.choice(LAYOUTS), rng.choice(VALS), rng.choice(TARGETS))
    # tensors of more than 1 MiB whose leading axis is not a round number (slab / chunk boundaries)
    BIG = [("float32", [1001, 300]), ("complex128", [7, 25000]), ("float64", [262145]), ("int32", [1025, 257]),
           ("uint8", [3, 349527]), ("float16", [1031, 521]), ("int64", [131073])]
    for dt, shape in (rng.sample(BIG, 4) if tier == "quick" else BIG * 3):
        fld = ("Linear", "weight") if len(shape) == 2 else rng.choice([("Scale", "scale"), ("meta", "metadata"), ("LIF", "v_leak")])
        add(dt, rng.choice(["C", "F", "T"]) if len(shape) == 2 else "C", "random", rng.choice(TARGETS), shape=shape, fld=fld)
    # several tensors in ONE file that share dtype, shape and memory image but differ in layout (W and W.T),
    # and genuinely equal tensors
    for _ in range(12 if tier == "quick" else 150):
        cases.append({"kind": "pair", "cls": "pair", "field": "*", "dt": rng.choice(["float32", "float64", "int16", "complex64", "bool"]),
                      "shape": [rng.choice([2, 3, 4])] * 2, "layout": "T", "val": "random", "target": rng.choice(TARGETS),
                      "seed": rng.randrange(2 ** 30)})
    # a graph read from a path is HELD while the path is overwritten by another model of the same architecture (and then deleted):
    # the tensors already handed out must keep the bytes they were read with (they are copies, not windows onto the file)
    for _ in range(6 if tier == "quick" else 60):
        cases.append({"kind": "held", "cls": "held", "field": "*", "dt": rng.choice(["float32", "float64", "int64", "int16"]),
                      "shape": rng.choice([[4], [3, 5], [64, 64], [2, 3, 4]]), "layout": "C", "val": "random",
                      "target": rng.choice(["str", "path"]), "seed": rng.randrange(2 ** 30)})
    return cases


def run_held(c):
    import os
    import pathlib
    import shutil
    import tempfile
    import nir
    sig = ("held", c["dt"], tuple(c["shape"]), c["target"])
    rs = np.random.RandomState(c["seed"] % (2 ** 31))
    def model(k):
        w = (rs.standard_normal(c["shape"]) * 100 + k).astype(c["dt"])
        b = (rs.standard_normal(c["shape"][-1:]) * 100 - k).astype(c["dt"])
        return nir.NIRGraph({"a": nir.Scale(w), "t": nir.Threshold(b)}, [("a", "t")])
    tmpdir = tempfile.mkdtemp(prefix="nirverif_c02_")
    fail = None
    try:
        p = os.path.join(tmpdir, "model.nir")
        tgt = p if c["target"] == "str" else pathlib.Path(p)
        g1, g2 = model(1), model(2)
        with quiet():
            nir.write(tgt, g1)
            r1 = nir.read(tgt)
        want = [g1.nodes["a"].scale.tobytes(), g1.nodes["t"].threshold.tobytes()]
        got = [np.ascontiguousarray(r1.nodes["a"].scale).tobytes(), np.ascontiguousarray(r1.nodes["t"].threshold).tobytes()]
        if got != want:
            fail = "tensor bytes changed in a plain write/read"
        else:
            with quiet():
                nir.write(tgt, g2)
            got = [np.ascontiguousarray(r1.nodes["a"].scale).tobytes(), np.ascontiguousarray(r1.nodes["t"].threshold).tobytes()]
            if got != want:
                fail = ("a graph read from a path changed its tensor bytes when the path was overwritten with another model "
                        f"(dtype {c['dt']}, shape {c['shape']})")
            else:
                os.remove(p)
                got = [np.ascontiguousarray(r1.nodes["a"].scale).tobytes(), np.ascontiguousarray(r1.nodes["t"].threshold).tobytes()]
                if got != want:
                    fail = "a graph read from a path changed its tensor bytes when the file was deleted"
    except BaseException as e:  # noqa: BLE001
        fail = f"write / read / overwrite of one path raised {type(e).__name__}: {str(e)[:120]}"
    finally:
        shutil.rmtree(tmpdir, ignore_errors=True)
    return Outcome(None, fail, True, sig)


def pair_recipe(c):
    n = c["shape"][0]
    W = raw_values(c["dt"], n * n, "random", c["seed"]).reshape(n, n)
    return {"k": "NIRGraph", "nodes": {
        "a": {"k": "LIF", "args": {"tau": W, "r": W.T, "v_leak": W.copy(), "v_threshold": np.ascontiguousarray(W.T)}},
        "b": {"k": "Linear", "args": {"weight": W.T}},
        "c": {"k": "Linear", "args": {"weight": W}},
        "d": {"k": "Scale", "args": {"scale": W[::-1].T}}}, "edges": []}


def all_arrays(g):
    out = []
    for name, n in g.nodes.items():
        for f in ("tau", "r", "v_leak", "v_threshold", "weight", "scale"):
            if hasattr(n, f):
                out.append(getattr(n, f))
    return out


def get_field(g, c):
    if c["cls"] == "pair":
        return all_arrays(g)
    n = g.nodes["n"]
    if c["cls"] == "meta":
        return [n.metadata["blob"], n.metadata["sub"]["deep"]]
    if c["cls"] == "Input":
        return [n.input_type["input"]]
    return [getattr(n, c["field"])]


def run(c):
    import nir
    if c["cls"] == "held":
        return run_held(c)
    if c["cls"] == "pair":
        arr = None
        r = pair_recipe(c)
    else:
        arr = make_array(c)
        r = recipe_with(c, arr)
    sig = (c["cls"], c["field"], c["dt"], tuple(c["shape"]), c["layout"], c["val"], c["target"])
    if r is None:
        return Outcome(None, None, False, ("skip",) + sig)
    try:
        with quiet():
            g = V.build(r)
    except BaseException:  # noqa: BLE001
        return Outcome(None, None, False, ("unbuildable",) + sig)
    before = [(np.asarray(x).dtype.str, np.asarray(x).shape, np.ascontiguousarray(np.asarray(x)).tobytes()) for x in get_field(g, c)]
    tmpdir = None
    fobj = None
    try:
        if c["target"] in ("str", "path"):
            tmpdir = tempfile.mkdtemp(prefix="nirverif_c02_")
            p = os.path.join(tmpdir, "f.nir")
            tgt = p if c["target"] == "str" else pathlib.Path(p)
        elif c["target"] == "bytesio":
            tgt = fobj = io.BytesIO()
        elif c["target"] == "bytesio_used":
            # a buffer that was used before and emptied: it is empty, but its position is not 0
            tgt = fobj = io.BytesIO()
            fobj.write(b"scratch " * 9)
            fobj.truncate(0)
        elif c["target"] == "tempfile_used":
            tgt = fobj = tempfile.TemporaryFile()
            fobj.write(b"scratch " * 9)
            fobj.flush()
            fobj.truncate(0)
        else:
            tgt = fobj = tempfile.TemporaryFile()
        try:
            with quiet():
                nir.write(tgt, g)
        except BaseException as e:  # noqa: BLE001
            numeric = arr is None or (isinstance(arr, np.ndarray) and arr.dtype.kind in "biufc")
            return Outcome(cops(r, ["file"], ("err", type(e).__name__)),
                           (f"nir.write rejected a graph whose tensors are all plain numeric arrays ({c['dt']}, shape {c['shape']}, field "
                            f"{c['cls']}.{c['field']}): {type(e).__name__}: {e}") if numeric else None, False, sig)
        if c["target"] in ("str", "path") and arr is not None and arr.dtype.kind in "fc" and arr.size:
            # the same path written again with a tensor that is == to the first one but has other bits (zeros of the other sign)
            try:
                fld = get_field(g, c)
                if all(isinstance(x, np.ndarray) and x.flags.writeable for x in fld):
                    saved = [x.copy() for x in fld]
                    for x in fld:
                        x[...] = 0.0
                    with quiet():
                        nir.write(tgt, g)
                    for x in fld:
                        np.negative(x, out=x)          # +0 -> -0 everywhere (== says nothing changed)
                    with quiet():
                        nir.write(tgt, g)
                        gz = nir.read(tgt)
                    for x, y in zip(fld, get_field(gz, c)):
                        if np.ascontiguousarray(x).tobytes() != np.ascontiguousarray(np.asarray(y)).tobytes():
                            return Outcome(None, f"{c['cls']}.{c['field']} ({c['dt']}): the path was written with all +0, then with all -0 "
                                                 f"(same graph object); reading gives the bits of the FIRST write", True, sig)
                    for x, sv in zip(fld, saved):
                        x[...] = sv
                    with quiet():
                        nir.write(tgt, g)
            except Exception:
                pass
        try:
            with quiet():
                g2 = nir.read(tgt)
        except BaseException as e:  # noqa: BLE001
            return Outcome(cops(r, ["file"], ("err", type(e).__name__)),
                           f"write accepted but read raised {type(e).__name__}: {e} for {c}", True, sig)
    finally:
        if tmpdir:
            shutil.rmtree(tmpdir, ignore_errors=True)
        if fobj is not None and c["target"].startswith("tempfile"):
            fobj.close()
    after = [(np.asarray(x).dtype.str, np.asarray(x).shape, np.ascontiguousarray(np.asarray(x)).tobytes()) for x in get_field(g2, c)]
    fail = None
    for b, a in zip(before, after):
        if b != a:
            what = "dtype" if b[0] != a[0] else "shape" if b[1] != a[1] else "bytes"
            fail = (f"{c['cls']}.{c['field']} ({c['dt']}, shape {c['shape']}, {c['val']} values, {c['layout']} layout, target "
                    f"{c['target']}): {what} changed: wrote {b[0]} {b[1]} {b[2][:16].hex()}, read {a[0]} {a[1]} {a[2][:16].hex()}")
            break
    coq_term = cops(r, ["file"], ("ok", g2))      # before the in-place update below: the recipe shares the arrays
    if not fail:
        # second generation: the graph that was read is written and read again (rank-0 tensors travel as numpy scalars)
        try:
            with quiet():
                bio2 = io.BytesIO()
                nir.write(bio2, g2)
                g4 = nir.read(bio2)
            after4 = [(np.asarray(x).dtype.str, np.asarray(x).shape, np.ascontiguousarray(np.asarray(x)).tobytes()) for x in get_field(g4, c)]
            for b, a in zip(before, after4):
                if b != a:
                    what = "dtype" if b[0] != a[0] else "shape" if b[1] != a[1] else "bytes"
                    fail = (f"{c['cls']}.{c['field']} ({c['dt']}, shape {c['shape']}, {c['val']} values): {what} changed in the SECOND generation "
                            f"(write, read, write the graph that was read, read): wrote {b[0]} {b[1]} {b[2][:16].hex()}, read {a[0]} {a[1]} {a[2][:16].hex()}")
                    break
        except BaseException as e:  # noqa: BLE001
            fail = f"writing / reading the graph returned by nir.read raised {type(e).__name__}: {e} for {c}"
    if not fail and c["cls"] not in ("Input",):
        # the SAME node objects written again after their tensors were overwritten in place: the second file must hold the
        # current content, not what an earlier serialisation saw
        changed = 0
        for i, x in enumerate(get_field(g, c)):
            if isinstance(x, np.ndarray) and x.flags.writeable and x.size:
                new = raw_values(x.dtype.name, x.size, "random", c["seed"] + 17 + i).reshape(x.shape)
                try:
                    np.copyto(x, new)
                    changed += 1
                except Exception:
                    pass
        if changed:
            now = [(np.asarray(x).dtype.str, np.asarray(x).shape, np.ascontiguousarray(np.asarray(x)).tobytes()) for x in get_field(g, c)]
            try:
                with quiet():
                    bio = io.BytesIO()
                    nir.write(bio, g)
                    g3 = nir.read(bio)
                after3 = [(np.asarray(x).dtype.str, np.asarray(x).shape, np.ascontiguousarray(np.asarray(x)).tobytes()) for x in get_field(g3, c)]
                if after3 != now:
                    fail = (f"{c['cls']}.{c['field']} ({c['dt']}, shape {c['shape']}): the graph was written a second time after its "
                            f"tensor was overwritten in place; the second file does not hold the current content")
            except BaseException as e:  # noqa: BLE001
                fail = f"second write/read of the same graph after an in-place tensor update raised {type(e).__name__}: {e}"
    nontriv = not (c["layout"] == "C" and c["val"] == "random" and len(c["shape"]) == 1)
    return Outcome(coq_term, fail, nontriv, sig)
