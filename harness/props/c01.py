"""C01 — HDF5 round trip returns an equivalent graph."""
from .. import sergen as S
from .. import values as V
from .common import Outcome, quiet, try_build
from .sercommon import compare_graphs, cops, file_roundtrip

ID = "C01"
COQ_IMPORT = "Corr.CNodes"
COQ_CASE_TYPE = "g_case"
COQ_CHECK = "g_check"
THEOREMS = ["c01_reader_inverts_writer", "c01_read_is_from_dict_of_normalised", "c01_edges_preserved", "c01_strings_preserved", "c01_nothing_invented", "c01_ints_keep_value", "c01_int_sequences_keep_value", "c01_file_round_trip", "c01_file_round_trip_canon"]
PROOF_FILES = ["Proofs/RoundTripProofs.v", "Proofs/SerialProofs.v", "Proofs/DictProofs.v", "Proofs/SimProofs.v"]
RULE = ("random graphs over all 17 primitives + nested NIRGraph (depth 0..3, 0..7 nodes per level), edge multisets "
        "incl. cyclic, parallel, dangling, dotted; names from a unicode pool (multi-byte, spaces, newline, 300 chars, "
        "reserved words) plus a malformed stream ('/', NUL: write must reject); parameter arrays of all 14 dtypes, "
        "rank 0..3, special float values, Fortran/strided/transposed layouts; padding int/tuple/list/array/'same'/"
        "'valid'; metadata trees. Oracle: strict two-sided comparator + fresh reconstruction of every node. "
        "distinct = recipe; non-trivial = >= 2 nodes or nested or metadata present")
ASSUMPTIONS = ["h5py/libhdf5 store laws A1-A5 (DESIGN.md 3.6) — exercised by every case, not proved"]


def gen(rng, tier):
    N = 200 if tier == "quick" else 2500
    cases = []
    for i in range(N):
        r = S.serial_graph(rng, depth=rng.choice([0, 1, 2, 3]), max_nodes=rng.choice([2, 4, 7]),
                           bad_names=(rng.random() < 0.08), shared=(rng.random() < 0.15))
        c = {"kind": "graph", "recipe": V.enc_recipe(r)}
        if rng.random() < 0.3:
            # a real file in a directory shared by all cases of this process, addressed by different spellings of one path
            c["path"] = {"name": rng.choice(["m0.nir", "m1.nir", "m0.nir"]), "w": rng.choice(SPELLINGS), "r": rng.choice(SPELLINGS)}
        cases.append(c)
    # very deep nestings ("any nesting depth"): where the interpreter's recursion limit makes write give up is not the property's
    # business, but a graph that write ACCEPTS is inside the claim: the file must read back (oracle only: no model term)
    for depth in ([120, 300, 420, 640, 900] if tier == "quick" else [60, 120, 200, 300, 360, 420, 500, 640, 800, 900, 950]):
        cases.append({"kind": "deep", "depth": depth, "recipe": None})
    return cases


SPELLINGS = ["abs", "rel", "dot", "updown", "pathlib", "pathlib_rel"]
_SHARED = {}


def shared_dir():
    if "d" not in _SHARED:
        import atexit
        import shutil
        import tempfile
        _SHARED["d"] = tempfile.mkdtemp(prefix="nirverif_c01_")
        atexit.register(shutil.rmtree, _SHARED["d"], True)
    return _SHARED["d"]


def spell(name, how):
    import os
    import pathlib
    d = shared_dir()
    return {"abs": os.path.join(d, name), "rel": name, "dot": os.path.join(".", name),
            "updown": os.path.join(d, "..", os.path.basename(d), name), "pathlib": pathlib.Path(d) / name,
            "pathlib_rel": pathlib.Path(name)}[how]


def run_deep(c):
    import io
    import numpy as np
    import nir
    g = nir.NIRGraph({"s": nir.Scale(np.arange(3, dtype="float32"))}, [("s", "s")])
    try:
        for i in range(c["depth"]):
            g = nir.NIRGraph({"inner": g, "t": nir.Threshold(np.ones(2, dtype="float32") * i)}, [("inner", "t")])
    except RecursionError:
        return Outcome(None, None, False, ("deep", c["depth"]))
    bio = io.BytesIO()
    try:
        with quiet():
            nir.write(bio, g)
    except BaseException:  # noqa: BLE001
        return Outcome(None, None, False, ("deep", c["depth"], "rejected"))     # outside the claim
    try:
        with quiet():
            g2 = nir.read(bio)
    except BaseException as e:  # noqa: BLE001
        return Outcome(None, f"write accepted a graph nested {c['depth']} deep but read raised {type(e).__name__}", True, ("deep", c["depth"]))
    n, n2, d = g, g2, 0
    fail = None
    while fail is None:
        if type(n2).__name__ != "NIRGraph" or sorted(n2.nodes) != sorted(n.nodes) or [tuple(e) for e in n2.edges] != [tuple(e) for e in n.edges]:
            fail = f"nested {c['depth']} deep: level {d} read back with children {sorted(getattr(n2, 'nodes', {}))} / edges {getattr(n2, 'edges', None)}"
        elif "inner" not in n.nodes:
            if n2.nodes["s"].scale.tobytes() != n.nodes["s"].scale.tobytes():
                fail = f"nested {c['depth']} deep: innermost parameter changed"
            break
        elif n2.nodes["t"].threshold.tobytes() != n.nodes["t"].threshold.tobytes():
            fail = f"nested {c['depth']} deep: parameter at level {d} changed"
        else:
            n, n2, d = n.nodes["inner"], n2.nodes["inner"], d + 1
    return Outcome(None, fail, True, ("deep", c["depth"]))


def run(c):
    if c.get("kind") == "deep":
        return run_deep(c)
    r = V.dec_recipe(c["recipe"])
    b = try_build(r)
    sig = repr(c["recipe"])
    if b[0] != "ok":
        return Outcome(cops(r, ["file"], b), f"generator produced an unbuildable graph: {b[1]}", False, sig)
    g = b[1]
    nontriv = len(r["nodes"]) >= 2 or "metadata" in r
    import io
    import nir
    import os
    bio = io.BytesIO()
    wt = rd = bio
    cwd0 = os.getcwd()
    if "path" in c:
        os.chdir(shared_dir())
        wt, rd = spell(c["path"]["name"], c["path"]["w"]), spell(c["path"]["name"], c["path"]["r"])
    try:
        with quiet():
            nir.write(wt, g)
    except BaseException as e:  # noqa: BLE001
        # a graph that write rejects is outside the claim; the model must reject it too
        os.chdir(cwd0)
        return Outcome(cops(r, ["file"], ("err", type(e).__name__)), None, False, sig)
    try:
        with quiet():
            g2 = nir.read(rd)
        os.chdir(cwd0)
    except BaseException as e:  # noqa: BLE001
        os.chdir(cwd0)
        return Outcome(cops(r, ["file"], ("err", type(e).__name__)),
                       f"nir.write accepted the graph but nir.read raised {type(e).__name__}: {e}", nontriv, sig)
    fail = compare_graphs(g, g2, r)
    return Outcome(cops(r, ["file"], ("ok", g2)), fail, nontriv, sig)
