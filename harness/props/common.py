"""Shared helpers for property modules: running the real library, observing nodes."""
import numpy as np

from .. import coqfmt as F
from .. import pyobs
from .. import values as V
from ..driver import Outcome, quiet, time_limit, Timeout  # noqa: F401


def shape_form(shape, form):
    shape = [int(x) for x in shape]
    if form == "nd":
        return np.array(shape, dtype=np.int64) if shape else np.array([], dtype=np.int64)
    if form == "list":
        return list(shape)
    if form == "tuple":
        return tuple(shape)
    if form == "dict":
        return {"input": np.array(shape, dtype=np.int64)}
    if form == "dict_out":
        return {"output": np.array(shape, dtype=np.int64)}
    if form == "dict_tuple":
        return {"input": tuple(shape)}
    if form == "dict_list":
        return {"input": list(shape)}
    if form.startswith("nd:"):
        return np.array(shape, dtype=np.dtype(form[3:]))
    raise ValueError(form)


def ints_or_none(a):
    """list of Python ints when `a` is a 1-d sequence of integer-valued numbers, else None"""
    try:
        arr = np.asarray(a)
        if arr.ndim != 1:
            return None
        out = []
        for x in arr.tolist():
            if isinstance(x, bool) or x is None:
                return None
            if isinstance(x, float):
                if x != int(x):
                    return None
                x = int(x)
            out.append(int(x))
        return out
    except Exception:
        return None


def res_list(obs):
    """('ok', [ints]) | ('err', name) -> Coq term of type result (list Z)"""
    if obs[0] == "ok" and obs[1] is not None:
        return "(Ok " + F.czlist(obs[1]) + ")"
    return "(Err OtherError)"


def try_build(recipe):
    """Build a recipe with the real library -> ('ok', node) | ('err', exception class name)"""
    try:
        with quiet():
            return ("ok", V.build(recipe))
    except Timeout:
        raise
    except BaseException as e:  # noqa: BLE001
        return ("err", type(e).__name__)


def cbuild(recipe, res):
    obs = f"(Ok {pyobs.node_term(res[1])})" if res[0] == "ok" else "(Err OtherError)"
    return f"(CBuild {pyobs.nexpr(recipe)} {obs})"


def run_infer(recipe, times=1, limit=10):
    """Build + infer_types() `times` times.  -> ('err', name) if the build raised, else
    ('ok', graph, raised: bool, exc name or None)"""
    b = try_build(recipe)
    if b[0] == "err":
        return b
    g = b[1]
    raised, name = False, None
    with time_limit(limit):
        for _ in range(times):
            raised, name = False, None
            try:
                with quiet():
                    g.infer_types()
            except Timeout:
                raise
            except BaseException as e:  # noqa: BLE001
                raised, name = True, type(e).__name__
    return ("ok", g, raised, name)


def cinfer(recipe, res, twice=False):
    ctor = "CInfer2" if twice else "CInfer"
    if res[0] == "err":
        return f"({ctor} {pyobs.nexpr(recipe)} (Err OtherError))"
    return f"({ctor} {pyobs.nexpr(recipe)} (Ok ({pyobs.node_term(res[1])}, {F.cbool(res[2])})))"


def cinfer_frame(recipe, res, twice=False, raised_any=False):
    """frame-only comparison (arbitrary graphs: type values depend on the scheduling order)"""
    tw = F.cbool(twice)
    if res[0] == "err":
        return f"(CInferFrame {tw} {pyobs.nexpr(recipe)} (Err OtherError))"
    return f"(CInferFrame {tw} {pyobs.nexpr(recipe)} (Ok ({pyobs.node_term(res[1])}, {F.cbool(raised_any)})))"


def tval(t, key):
    """value of a type dictionary as list of ints, 'none', or 'other'"""
    if not isinstance(t, dict) or key not in t:
        return "other"
    v = t[key]
    if v is None:
        return "none"
    r = ints_or_none(v)
    return r if r is not None else "other"
