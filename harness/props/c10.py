"""C10 — Inference terminates and is non-destructive on every topology."""
import dataclasses
import hashlib
import itertools

import numpy as np

from .. import coqfmt as F
from .. import graphgen as G
from .. import values as V
from .common import Outcome, cinfer, cinfer_frame, quiet, time_limit, try_build, tval, Timeout

ID = "C10"
COQ_IMPORT = "Corr.CNodes"
COQ_CASE_TYPE = "g_case"
COQ_CHECK = "g_check"
THEOREMS = ["c10_terminates", "c10_fuel_bound", "c10_fuel_irrelevant", "c10_step_frame", "c10_names", "c10_frame", "c10_untouched", "c10_graph_frame", "c10_idempotent", "c10_idempotent_canonical", "c10_names_are_opaque"]
PROOF_FILES = ["Proofs/InferProofs.v", "Proofs/IdemProofs.v", "Proofs/InferSimProofs.v", "Proofs/RenameProofs.v"]
RULE = ("directed multigraphs over {Input, typed leaves, untyped Conv/Pool/Flatten, Output, rarely nested graphs} "
        "with cycles, self-loops, parallel edges, fan-in/out, unreachable components, edges into Inputs / out of "
        "Outputs, dangling endpoints; random to 12 nodes / 30 edges plus consistent graphs with erasures; thorough: "
        "exhaustive multigraphs on <= 3 nodes x <= 3 edges with all edge orders. One and two invocations, each under "
        "a 10 s wall-clock guard; deep snapshot (sha256 of every array, id() of nodes, names, order, edges, metadata) "
        "before/after. distinct = recipe; non-trivial = has a cycle, a parallel edge or an unreachable node")
ASSUMPTIONS = ["CPython wall-clock termination is observed (10 s guard), not proved"]


def gen(rng, tier):
    cases = []
    N = 260 if tier == "quick" else 3000
    for i in range(N):
        if rng.random() < 0.7:
            r = G.wild_graph(rng, max_nodes=rng.choice([3, 5, 8, 12]))
            cons = False
        else:
            cg = G.consistent_graph(rng, max_nodes=8)
            r, _ = G.erase(rng, cg, wrong_outputs=(rng.random() < 0.5))
            cons = True
            if rng.random() < 0.25:
                # a spare, still untyped Input port that feeds nothing: the rest of the graph is inferred all the same
                r["nodes"]["spare in"] = {"k": "Input", "args": {"input_type": None}}
        cases.append({"kind": "rand", "recipe": V.enc_recipe(r), "twice": rng.random() < 0.5, "consistent": cons})
    # nodes that were built from ONE types dictionary object (the constructors keep a dict-form argument as it is): inference
    # reaching one of them must not re-type the other, nor the caller's dictionary
    for _ in range(8 if tier == "quick" else 80):
        cases.append({"kind": "sharedty", "a": [rng.randint(2, 5), rng.randint(2, 5)], "b": [rng.randint(2, 5), rng.randint(2, 5)],
                      "cls": rng.choice(["Flatten", "Flatten", "Input"])})
    if tier == "thorough":
        mk = {
            "I": lambda: {"k": "Input", "args": {"input_type": np.array([2, 5, 5])}},
            "S": lambda: {"k": "Scale", "args": {"scale": np.ones((2, 5, 5), dtype="float32")}},
            "C": lambda: {"k": "Conv2d", "args": {"input_shape": None, "weight": np.ones((2, 2, 2, 2), dtype="float32"),
                                                  "stride": 1, "padding": "same", "dilation": 1, "groups": 1,
                                                  "bias": np.ones(2, dtype="float32")}},
            "F": lambda: {"k": "Flatten", "args": {"input_type": None, "start_dim": 0, "end_dim": -1}},
            "O": lambda: {"k": "Output", "args": {"output_type": None}},
        }
        for n in (1, 2, 3):
            for kinds in itertools.product("ISCFO", repeat=n):
                if "I" not in kinds:
                    continue
                names = [f"{k.lower()}{i}" for i, k in enumerate(kinds)]
                pairs = list(itertools.product(names, repeat=2))
                for ne in range(0, 4 if n < 3 else 3):
                    for es in itertools.product(pairs, repeat=ne):
                        if rng.random() > (1.0 if n < 3 else 0.08):
                            continue
                        r = {"k": "NIRGraph", "nodes": {nm: mk[k]() for nm, k in zip(names, kinds)}, "edges": list(es)}
                        cases.append({"kind": "exh", "recipe": V.enc_recipe(r), "twice": True})
    return cases


def digest(v):
    if isinstance(v, np.ndarray):
        return ("nd", v.dtype.str, v.shape, hashlib.sha256(F.canon_bytes(v)).hexdigest() if v.dtype.kind != "O" else repr(v.tolist()))
    if isinstance(v, dict):
        return ("dict", tuple((k, digest(x)) for k, x in v.items()))
    if isinstance(v, (list, tuple)):
        return (type(v).__name__, tuple(digest(x) for x in v))
    if isinstance(v, np.generic):
        return ("np", v.dtype.str, F.canon_bytes(np.asarray(v)))
    return (type(v).__name__, repr(v))


def snapshot(g):
    """everything inference must not touch"""
    snap = {"order": list(g.nodes), "edges": [tuple(e) for e in g.edges], "meta": digest(g.metadata), "nodes": {}}
    for name, n in g.nodes.items():
        d = {"id": id(n), "cls": type(n).__name__, "fields": {}}
        if type(n).__name__ == "NIRGraph":
            d["sub"] = snapshot(n)
        else:
            for f in dataclasses.fields(n):
                if f.name in ("input_type", "output_type"):
                    continue
                v = getattr(n, f.name)
                if f.name == "input_shape" and v is None:
                    d["fields"][f.name] = "WAS-NONE"
                else:
                    d["fields"][f.name] = (id(v) if isinstance(v, np.ndarray) else None, digest(v))
        snap["nodes"][name] = d
    return snap


def types_of(g):
    out = {}
    for name, n in g.nodes.items():
        if type(n).__name__ == "NIRGraph":
            out[name] = ("graph",)
        else:
            out[name] = (digest(n.input_type), digest(n.output_type), digest(getattr(n, "input_shape", None)))
    return out


def diff_snap(a, b):
    if a["order"] != b["order"]:
        return f"node names/order changed {a['order']} -> {b['order']}"
    if a["edges"] != b["edges"]:
        return "edge list changed"
    if a["meta"] != b["meta"]:
        return "graph metadata changed"
    for name in a["nodes"]:
        x, y = a["nodes"][name], b["nodes"][name]
        if x["id"] != y["id"] or x["cls"] != y["cls"]:
            return f"node {name}: identity/class changed"
        if "sub" in x:
            d = diff_snap(x["sub"], y["sub"])
            if d:
                return f"nested graph {name}: {d}"
            continue
        for f, v in x["fields"].items():
            if v == "WAS-NONE":
                continue
            if y["fields"].get(f) != v:
                return f"node {name}: field {f} changed"
    return None


def reachable(g):
    ins = [k for k, n in g.nodes.items() if type(n).__name__ == "Input"]
    seen = set(ins)
    stack = list(ins)
    while stack:
        x = stack.pop()
        for a, b in g.edges:
            if a == x and b not in seen:
                seen.add(b)
                stack.append(b)
    return seen


def later_inputs(g):
    """history on the SAME graph object after it has been inferred: a new Input with an untyped branch is added in place (and
    a former Input is replaced by an ordinary node); inference must follow the graph as it is now"""
    import nir
    try:
        with quiet():
            _ = g.inputs, g.outputs
            olds = [k for k, n in g.nodes.items() if type(n).__name__ == "Input" and tval(n.input_type, "input") not in ("none", "other")]
            if olds:
                k = olds[0]
                g.nodes[k] = nir.Scale(scale=np.ones(tuple(int(x) for x in tval(g.nodes[k].input_type, "input")), dtype="float32"))
            g.nodes["late in"] = nir.Input(np.array([2, 3]))
            g.nodes["late fl"] = nir.Flatten(input_type=None, start_dim=0, end_dim=-1)
            g.nodes["late out"] = nir.Output(output_type=None)
            g.edges.extend([("late in", "late fl"), ("late fl", "late out")])
    except BaseException as e:  # noqa: BLE001
        return f"adding nodes and edges in place raised {type(e).__name__}: {e}"
    types0 = types_of(g)
    reach = reachable(g)
    raised = False
    try:
        with time_limit(10), quiet():
            g.infer_types()
    except Timeout:
        return "infer_types() did not terminate within 10 s after nodes were added in place"
    except BaseException:  # noqa: BLE001
        raised = True
    t1 = types_of(g)
    for name in g.nodes:
        if name not in reach and t1[name] != types0[name]:
            return (f"after an Input was replaced / added in place on an already inferred graph: node {name} is not reachable from "
                    f"any current Input but its types changed")
    if not raised:
        for name in ("late fl", "late out"):
            n = g.nodes[name]
            if tval(n.input_type, "input") != [2, 3] and name == "late fl" or tval(n.output_type, "output") != [6]:
                return (f"an Input with an untyped branch was added in place to an already inferred graph; infer_types() returned "
                        f"normally but {name} has types {tval(n.input_type, 'input')} -> {tval(n.output_type, 'output')}")
    return None


def run_sharedty(c):
    import nir
    a, b = c["a"], c["b"]
    if a == b:
        b = [a[0] + 1, a[1]]
    d = {"input": np.array(a)}
    mk = {"Flatten": lambda: nir.Flatten(input_type=d, start_dim=0, end_dim=-1),
          "Input": lambda: nir.Input(input_type=d)}[c["cls"]]
    fail = None
    try:
        with quiet():
            reached = nir.Flatten(input_type=d, start_dim=0, end_dim=-1)
            other = mk()
            g = nir.NIRGraph(nodes={"in": nir.Input(np.array(b)), "reached": reached, "other": other, "out": nir.Output(output_type=None)},
                             edges=[("in", "reached"), ("reached", "out")])
            before_other = (tval(other.input_type, "input"), tval(other.output_type, "output"))
            with time_limit(10):
                g.infer_types()
        after_other = (tval(other.input_type, "input"), tval(other.output_type, "output"))
        if after_other != before_other:
            fail = (f"a {c['cls']} node without incoming edges (built from the same types dictionary object as a reached "
                    f"Flatten) was re-typed by infer_types(): {before_other} -> {after_other}")
        elif [int(x) for x in d["input"]] != a or list(d.keys()) != ["input"]:
            fail = f"infer_types() changed the caller's own types dictionary: {d}"
        elif tval(reached.input_type, "input") != b:
            fail = f"the reached Flatten was not re-typed from its predecessor: {reached.input_type}"
    except Timeout:
        fail = "infer_types() did not terminate within 10 s"
    except BaseException as e:  # noqa: BLE001
        fail = f"shared-types-dictionary scenario raised {type(e).__name__}: {e}"
    return Outcome(None, fail, True, repr(c))


def run(c):
    if c["kind"] == "sharedty":
        return run_sharedty(c)
    r = V.dec_recipe(c["recipe"])
    b = try_build(r)
    times = 2 if c["twice"] else 1
    if b[0] != "ok":
        return Outcome(cinfer_frame(r, b, twice=c["twice"]), None, False, c["recipe"].__repr__())
    g = b[1]
    before = snapshot(g)
    types0 = types_of(g)
    reach = reachable(g)
    fail = None
    raised = [False, False]
    t_after = []
    try:
        with time_limit(10):
            for i in range(times):
                try:
                    with quiet():
                        g.infer_types()
                except Timeout:
                    raise
                except BaseException as e:  # noqa: BLE001
                    raised[i] = True
                t_after.append(types_of(g))
                d = diff_snap(before, snapshot(g))
                if d and not fail:
                    fail = f"infer_types() (call {i + 1}) is destructive: {d}"
    except Timeout:
        return Outcome(None, "infer_types() did not terminate within 10 s", True, repr(c["recipe"]))
    if not fail:
        for name in g.nodes:
            if name not in reach and t_after[0][name] != types0[name]:
                fail = f"node {name} is not reachable from an Input but its types/input_shape changed"
                break
    if not fail and not raised[0]:
        all_inputs_defined = all(tval(n.input_type, "input") not in ("none", "other") and tval(n.output_type, "output") not in ("none", "other")
                                 for n in g.nodes.values() if type(n).__name__ == "Input")
        if all_inputs_defined:
            for name in reach:
                if name not in g.nodes:
                    continue
                n = g.nodes[name]
                if type(n).__name__ in ("NIRGraph", "Input"):
                    continue        # (an Input is typed by its creator; inference does not derive anything for it)
                if tval(n.input_type, "input") == "none" or tval(n.output_type, "output") == "none":
                    # only nodes that are the target of a processed edge get types; an Input is typed already
                    fail = f"infer_types() returned normally but reachable node {name} still has an undefined type"
                    break
    if not fail and c.get("consistent") and raised[0]:
        fail = "infer_types() raised on a type-consistent graph whose nodes are all reachable (erased annotations only)"
    if not fail and c.get("consistent") and not raised[0]:
        try:
            with quiet():
                ok = g._check_types()
            if ok is not True:
                fail = f"after infer_types() on a type-consistent graph (erased / wrong Output annotations only) _check_types() returned {ok!r}"
        except BaseException as e:  # noqa: BLE001
            fail = (f"after infer_types() on a type-consistent graph (erased / wrong Output annotations only) the type check still "
                    f"fails: {type(e).__name__}: {e}")
    if not fail and times == 2 and not raised[0]:
        if raised[1] or t_after[1] != t_after[0]:
            fail = "a second infer_types() changed types (or raised) after a successful first one"
    res = ("ok", g, raised[times - 1], None)
    term_now = (cinfer(r, res, twice=c["twice"]) if c.get("consistent")
                else cinfer_frame(r, res, twice=c["twice"], raised_any=any(raised[:times])))
    if not fail:
        fail = later_inputs(g)
    # consistent graphs: exact comparison of all types; arbitrary graphs: frame + definedness only (which type
    # wins on an inconsistent edge depends on the scheduling order, which C10 does not constrain)
    coq = term_now
    has_cycle = any(a == b2 for a, b2 in g.edges) or len(set(g.edges)) < len(g.edges) or len(reach) < len(g.nodes)
    return Outcome(coq, fail, has_cycle, repr(c["recipe"]))
