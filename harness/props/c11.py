"""C11 — from_list builds exactly the sequential path graph."""
import numpy as np

from .. import pyobs
from .. import values as V
from .common import Outcome, quiet, tval

ID = "C11"
COQ_IMPORT = "Corr.CNodes"
COQ_CASE_TYPE = "g_case"
COQ_CHECK = "g_check"
THEOREMS = ["c11_order", "c11_naming_scheme", "c11_names_distinct", "c11_decimal_injective", "c11_class_names_have_no_underscore", "c11_edges_chain", "c11_from_list"]
PROOF_FILES = ["Proofs/FromListProofs.v"]
RULE = ("sequences of length 1..40 over the 15 leaf classes (+ Input first / Output last or absent) with heavy "
        "repetition (>= 12 repeats to cross _9 -> _10; the i/if/li/lif/linear prefix family), nodes with undefined "
        "types (pool, Conv(None), Flatten(None)) at the ends; three calling conventions (varargs, list, tuple); "
        "malformed stream: empty sequence, Input/Output in the middle (model only). Oracle: names recomputed by an "
        "independent counter, `is` identity and order of the given objects, chain edges, end-point types. "
        "distinct = (class sequence, convention); non-trivial = some class repeated or an end node auto-inserted")
ASSUMPTIONS = []

LEAVES = ["Affine", "Linear", "Scale", "Conv1d", "Conv2d", "SumPool2d", "AvgPool2d", "Flatten", "Delay",
          "Threshold", "I", "IF", "LI", "LIF", "CubaLIF"]
PARAMS = {"Scale": ["scale"], "Threshold": ["threshold"], "Delay": ["delay"], "I": ["r"],
          "IF": ["r", "v_threshold"], "LI": ["tau", "r", "v_leak"], "LIF": ["tau", "r", "v_leak", "v_threshold"],
          "CubaLIF": ["tau_syn", "tau_mem", "r", "v_leak", "v_threshold"]}


def leaf(rng, cls):
    r = rng.random()      # parameter rank 1 mostly; rank 0 (scalar parameters: the DEFINED empty shape) and rank 2 too
    sh = [] if r < 0.15 else [rng.randint(1, 4), rng.randint(1, 3)] if r < 0.3 else [rng.randint(1, 4)]
    if cls in PARAMS:
        return {"k": cls, "args": {p: np.ones(sh, dtype="float32") for p in PARAMS[cls]}}
    if cls == "Affine":
        return {"k": cls, "args": {"weight": np.ones((2, 3), dtype="float32"), "bias": np.ones(2, dtype="float32")}}
    if cls == "Linear":
        return {"k": cls, "args": {"weight": np.ones((rng.randint(1, 3), 3), dtype="float32")}}
    if cls == "Conv1d":
        return {"k": cls, "args": {"input_shape": rng.choice([None, 9]), "weight": np.ones((2, 2, 3), dtype="float32"),
                                   "stride": 1, "padding": 0, "dilation": 1, "groups": 1, "bias": np.ones(2, dtype="float32")}}
    if cls == "Conv2d":
        return {"k": cls, "args": {"input_shape": rng.choice([None, (9, 9)]), "weight": np.ones((2, 2, 3, 3), dtype="float32"),
                                   "stride": 1, "padding": 1, "dilation": 1, "groups": 1, "bias": np.ones(2, dtype="float32")}}
    if cls in ("SumPool2d", "AvgPool2d"):
        return {"k": cls, "args": {"kernel_size": np.array([2, 2]), "stride": np.array([2, 2]), "padding": np.array([0, 0])}}
    if cls == "Flatten":
        return {"k": cls, "args": {"input_type": rng.choice([None, {"input": np.array([2, 3, 4])}]), "start_dim": 0, "end_dim": -1}}
    if cls == "Input":
        return {"k": cls, "args": {"input_type": np.array(sh, dtype=np.int64)}}
    if cls == "Output":
        return {"k": cls, "args": {"output_type": np.array(sh, dtype=np.int64)}}
    raise ValueError(cls)


def gen(rng, tier):
    cases = []
    N = 220 if tier == "quick" else 2500
    for _ in range(N):
        L = rng.choice([1, 1, 2, 3, 5, 8, 14, 25, 40])
        pool = rng.sample(LEAVES, rng.choice([1, 2, 3, 5]))
        if rng.random() < 0.4:
            pool = rng.sample(["I", "IF", "LI", "LIF", "Linear"], rng.choice([2, 3, 5]))
        seq = [rng.choice(pool) for _ in range(L)]
        if rng.random() < 0.3:
            seq[0] = "Input"
        if rng.random() < 0.3:
            seq[-1] = "Output" if not (L == 1 and seq[0] == "Input") else seq[-1]
        r = rng.random()
        if r < 0.04 and L >= 3:
            seq[rng.randrange(1, L - 1)] = rng.choice(["Input", "Output"])   # inadmissible: model only
        cases.append({"kind": "seq", "recipes": [V.enc_recipe(leaf(rng, c)) for c in seq],
                      "conv": rng.choice(["varargs", "varargs", "list", "list", "tuple", "tuple", "namedtuple", "listsub"])})
    # an un-annotated convolution directly behind a node whose output type fits it (channels and rank): from_list must still
    # use the GIVEN conv object, untouched
    def conv(nd, shape):
        return {"k": "Conv1d" if nd == 1 else "Conv2d",
                "args": {"input_shape": shape, "weight": np.ones((2, 2) + (3,) * nd, dtype="float32"), "stride": 1, "padding": 1,
                         "dilation": 1, "groups": 1, "bias": np.ones(2, dtype="float32")}}
    def lif(sh):
        return {"k": "LIF", "args": {p: np.ones(sh, dtype="float32") for p in PARAMS["LIF"]}}
    for _ in range(12 if tier == "quick" else 120):
        nd = rng.choice([1, 2])
        first = rng.choice([conv(nd, 9 if nd == 1 else (9, 9)), lif([2, 7] if nd == 1 else [2, 5, 5])])
        seq = [first, conv(nd, None)] + [leaf(rng, rng.choice(["Scale", "LIF", "Flatten"])) for _ in range(rng.randint(0, 2))]
        if rng.random() < 0.4:
            seq = [leaf(rng, "Input")] + seq
        cases.append({"kind": "seq", "recipes": [V.enc_recipe(x) for x in seq], "conv": rng.choice(["varargs", "list", "tuple"])})
    # nodes that carry metadata a front end might have recorded (a label, an index ...): the naming scheme does not look at it
    for _ in range(20 if tier == "quick" else 200):
        L = rng.choice([2, 3, 5])
        seq = []
        for i in range(L):
            x = leaf(rng, rng.choice(["Linear", "Linear", "LIF", "Scale", "Affine"]))
            if rng.random() < 0.6:
                x["args"]["metadata"] = rng.choice([{"name": "fc1"}, {"name": "linear_1"}, {"name": "linear"}, {"name": "output"}, {"name": "input"},
                                                    {"label": "lif_1", "index": 0}, {"name": "lif", "id": 3}, {"key": "scale_1"}])
            seq.append(x)
        cases.append({"kind": "seq", "recipes": [V.enc_recipe(x) for x in seq], "conv": rng.choice(["varargs", "list", "tuple"])})
    # a typed convolution directly followed by a dense layer whose fan-in happens to equal the number of conv outputs
    # (from_list links what it is given: it never inserts nodes)
    for _ in range(10 if tier == "quick" else 100):
        nd = rng.choice([1, 2])
        n, k, co = rng.choice([8, 6]), 3, rng.choice([2, 3])
        out_elems = co * (n - k + 1) ** nd
        conv = {"k": "Conv1d" if nd == 1 else "Conv2d",
                "args": {"input_shape": n if nd == 1 else (n, n), "weight": np.ones((co, 1) + (k,) * nd, dtype="float32"), "stride": 1,
                         "padding": 0, "dilation": 1, "groups": 1, "bias": np.ones(co, dtype="float32")}}
        dense = {"k": rng.choice(["Linear", "Affine"]), "args": {"weight": np.ones((4, out_elems), dtype="float32")}}
        if dense["k"] == "Affine":
            dense["args"]["bias"] = np.ones(4, dtype="float32")
        seq = [conv, dense] + ([leaf(rng, "Flatten")] if rng.random() < 0.4 else [])
        cases.append({"kind": "seq", "recipes": [V.enc_recipe(x) for x in seq], "conv": rng.choice(["varargs", "list", "tuple"])})
    # end points whose type is a type DICTIONARY holding a tuple / list / array (parse_shape_argument keeps a dictionary as it is):
    # the Input / Output that from_list adds carry the neighbour's type whatever container it is in
    for _ in range(16 if tier == "quick" else 160):
        box = rng.choice([tuple, list, lambda v: np.array(v, dtype=rng.choice(["int64", "int32"]))])
        shp = rng.choice([[2, 3, 4], [5], [3, 2]])
        first = rng.choice([{"k": "Flatten", "args": {"input_type": {"input": box(shp)}, "start_dim": 0, "end_dim": -1}},
                            {"k": "Input", "args": {"input_type": {"input": box(shp)}}},
                            {"k": "Output", "args": {"output_type": {"output": box(shp)}}}])
        mid = [leaf(rng, rng.choice(["Scale", "LIF", "Linear"])) for _ in range(rng.randint(0, 2))]
        seq = rng.choice([[first], [first] + mid, mid + [first] if first["k"] != "Input" else [first] + mid])
        cases.append({"kind": "seq", "recipes": [V.enc_recipe(x) for x in seq], "conv": rng.choice(["varargs", "list", "tuple"])})
    cases.append({"kind": "seq", "recipes": [], "conv": "varargs"})
    cases.append({"kind": "seq", "recipes": [], "conv": "list"})
    return cases


def same_ty(a, b):
    if a is None or b is None:
        return a is b
    if list(a.keys()) != list(b.keys()):
        return False
    for k in a:
        if a[k] is None or b[k] is None:
            if a[k] is not b[k]:
                return False
        elif not np.array_equal(np.asarray(a[k]), np.asarray(b[k])):
            return False
    return True


def run(c):
    import nir
    recs = [V.dec_recipe(r) for r in c["recipes"]]
    nodes = [V.build(r) for r in recs]
    classes = [r["k"] for r in recs]
    admissible = bool(recs) and all(k != "Input" for k in classes[1:]) and all(k != "Output" for k in classes[:-1])
    try:
        with quiet():
            if c["conv"] == "varargs":
                g = nir.NIRGraph.from_list(*nodes)
            elif c["conv"] == "list":
                g = nir.NIRGraph.from_list(list(nodes))
            elif c["conv"] == "namedtuple":
                import collections
                NT = collections.namedtuple("Layers", [f"l{i}" for i in range(len(nodes))])
                g = nir.NIRGraph.from_list(NT(*nodes))
            elif c["conv"] == "listsub":
                class Layers(list):
                    pass
                g = nir.NIRGraph.from_list(Layers(nodes))
            else:
                g = nir.NIRGraph.from_list(tuple(nodes))
        obs = ("ok", g)
    except BaseException as e:  # noqa: BLE001
        obs = ("err", type(e).__name__)
    es = "[" + "; ".join(pyobs.nexpr(r) for r in recs) + "]"
    coq = f"(CFromList {es} " + (f"(Ok {pyobs.node_term(obs[1])})" if obs[0] == "ok" else "(Err OtherError)") + ")"
    fail = None
    sig = (tuple(classes), c["conv"])
    nontriv = len(set(classes)) < len(classes) or (bool(classes) and (classes[0] != "Input" or classes[-1] != "Output"))
    if admissible:
        if obs[0] != "ok":
            fail = f"from_list({classes}) [{c['conv']}] raised {obs[1]}"
        else:
            g = obs[1]
            counts, names = {}, []
            for k in classes:
                base = k.lower()
                i = counts.get(base, 0)
                names.append(base if i == 0 else f"{base}_{i}")
                counts[base] = i + 1
            exp_names = ([] if classes[0] == "Input" else ["input"]) + names + ([] if classes[-1] == "Output" else ["output"])
            keys = list(g.nodes.keys())
            if keys != exp_names:
                fail = f"node names {keys} != expected {exp_names}"
            elif len(set(keys)) != len(keys):
                fail = f"node names not pairwise distinct: {keys}"
            elif any(g.nodes[nm] is not nd for nm, nd in zip(names, nodes)):
                fail = "the graph does not contain the given node objects (identity) in the given order"
            elif [tuple(e) for e in g.edges] != list(zip(exp_names, exp_names[1:])):
                fail = f"edges {g.edges} are not the chain of consecutive names"
            else:
                if classes[0] != "Input":
                    i = g.nodes["input"]
                    if type(i).__name__ != "Input" or not same_ty(i.input_type, nodes[0].input_type):
                        fail = f"auto Input carries {i.input_type}, first node's input type is {nodes[0].input_type}"
                if not fail and classes[-1] != "Output":
                    o = g.nodes["output"]
                    if type(o).__name__ != "Output" or not same_ty(o.output_type, nodes[-1].output_type):
                        fail = f"auto Output carries {o.output_type}, last node's output type is {nodes[-1].output_type}"
    return Outcome(coq, fail, nontriv, sig)
