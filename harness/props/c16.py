"""C16 — Metadata is carried faithfully and is semantically inert."""
import copy
import io
import pathlib
import zlib

import h5py
import numpy as np

from .. import graphgen as G
from .. import pyobs
from .. import sergen as S
from .. import values as V
from .common import Outcome, quiet, time_limit, try_build, tval, Timeout
from .sercommon import cops, num_equal
from .c03 import raw_tree

ID = "C16"
COQ_IMPORT = "Corr.CNodes"
COQ_CASE_TYPE = "g_case"
COQ_CHECK = "g_check"
THEOREMS = ["c16_metadata_tree_carried", "c16_strings_carried", "c16_arrays_carried", "c16_ints_carried", "c16_graph_metadata_in_dict", "c16_inert_types", "c16_inert_inference", "c16_inert_check", "c16_inert_file"]
PROOF_FILES = ["Proofs/SerialProofs.v"]
RULE = ("graphs from the C01 generator and consistent graphs from the C08 generator, each in three variants: without "
        "metadata, with random metadata trees (depth 0..4; unicode keys and strings, empty string, ints, floats incl. "
        "NaN, bools, numeric arrays, nested and empty dicts) on a random subset of nodes / sub-graphs / the graph, and "
        "with different metadata; checks: metadata returned by read(write(g)) equals what was attached at every path; "
        "raw HDF5 trees outside */metadata identical across the variants; node types, _check_types() verdict and "
        "infer_types() results identical across the variants. distinct = recipe; non-trivial = >= 1 metadata tree of "
        "depth >= 1 or on a nested node")
ASSUMPTIONS = ["keys are legal HDF5 link names other than the reserved word 'metadata'"]


def strip_md(r):
    r = copy.copy(r)
    if r["k"] == "NIRGraph":
        r.pop("metadata", None)
        r["nodes"] = {k: strip_md(v) for k, v in r["nodes"].items()}
    else:
        r["args"] = {k: v for k, v in r["args"].items() if k != "metadata"}
    return r


def add_md(rng, r, p=0.6):
    r = copy.copy(r)
    if r["k"] == "NIRGraph":
        r["nodes"] = {k: add_md(rng, v, p) for k, v in r["nodes"].items()}
        if rng.random() < p:
            r["metadata"] = md_tree(rng, rng.choice([0, 1, 2, 4]))
    else:
        r["args"] = dict(r["args"])
        if rng.random() < p:
            r["args"]["metadata"] = md_tree(rng, rng.choice([0, 1, 2, 4]))
    return r


def md_tree(rng, depth):
    out = {}
    for _ in range(rng.randint(1, 4)):
        k = rng.choice(["k", "note", "ünï", "α β", "n", "arr", "f", "sub", "type", "q" * 40, "x.y", "rate%2Fhz", "50%2F50", "%", "%25", "2024-03-01", "nodes", "edges", "shape", "0",
                        "input_type", "output_type", "weight", "input_shape", "w_in", "start_dim", "group", "name", "value", "self", "key",
                        "data", "dtype", "\ufeffk", "members", "attrs", "file", "parent", "id", "ref", "..", "...", "#tag", "#refs#", "{}",
                        "a b", "%s", "_origin", "_", "__dict__", "__class__", "_k", "k_", "-k", "~k", "$ref", "@id", "!tag", "K", "TYPE"])
        r = rng.random()
        if r < 0.2:
            out[k] = rng.choice(["", "text", "日本語", "a\nb", "same", "NIRGraph", "spikes> ", " ", "    ", " lead", "tab\t", "trail \n",
                                 "nbsp\u00a0", "caf\u0065\u0301", "\u2126 ohm",
                                 # text that LOOKS like another kind of value (dates, numbers, booleans, escapes)
                                 "2024-03-01", "20240301", "2024-03-01T12:30:00+00:00", "12:30", "1e5", "nan", "True", "None", "0x10",
                                 "1_000", "[1, 2]", "{}", "%2F", "a%2Fb", "\\n", "b'x'",
                                 "\ufeffexported", "\ufeff", "mid\ufeffdle", "Linear", "Scale"])
        elif r < 0.35:
            out[k] = rng.choice([0, 1, -7, 2 ** 40, 2 ** 63 - 1, -2 ** 63, 2 ** 63, 2 ** 64 - 1, 2 ** 63 + 12345])
        elif r < 0.5:
            out[k] = rng.choice(S.SPECIAL_F)
        elif r < 0.6:
            out[k] = rng.random() < 0.5
        elif r < 0.8:
            out[k] = S.rand_array(rng, S.rand_shape(rng, 2))
        elif depth > 0:
            out[k] = md_tree(rng, depth - 1)
        else:
            out[k] = {}
    return out


def gen(rng, tier):
    N = 120 if tier == "quick" else 1500
    cases = []
    for _ in range(N):
        if rng.random() < 0.55:
            base = strip_md(S.serial_graph(rng, depth=rng.choice([0, 1, 2]), max_nodes=rng.choice([2, 4, 6])))
        else:
            cg = G.consistent_graph(rng, max_nodes=6)
            base, _ = G.erase(rng, cg) if rng.random() < 0.4 else (cg["recipe"], [])
        cases.append({"kind": "md", "base": V.enc_recipe(base), "with": V.enc_recipe(add_md(rng, base)),
                      "other": V.enc_recipe(add_md(rng, base, 0.4))})
    return cases


def strip_tree(t):
    if t[0] == "group":
        return ("group", {k: strip_tree(v) for k, v in t[1].items() if k != "metadata"})
    return t


def behaviour(recipe):
    """types of all nodes, check verdict, types after inference (as comparable values)"""
    import nir
    g = V.build(recipe)
    def types(g):
        out = {}
        for k, n in g.nodes.items():
            out[k] = types(n) if type(n).__name__ == "NIRGraph" else (repr(tval(n.input_type, "input")), repr(tval(n.output_type, "output")))
        return out
    t0 = types(g)
    try:
        with quiet():
            chk = ("ok", g._check_types())
    except BaseException as e:  # noqa: BLE001
        chk = ("err", type(e).__name__)
    try:
        with quiet(), time_limit(20):
            g.infer_types()
        inf = ("ok",)
    except Timeout:
        raise
    except BaseException as e:  # noqa: BLE001
        inf = ("err", type(e).__name__)
    return {"types": t0, "check": chk, "infer": inf, "types_after": types(g), "gio": (repr(g.input_type), repr(g.output_type))}


def md_equal(orig, back, path="root"):
    if not num_equal(orig.metadata, back.metadata):
        return f"{path}: metadata read back {back.metadata!r} != attached {orig.metadata!r}"
    if type(orig).__name__ == "NIRGraph":
        for k in orig.nodes:
            d = md_equal(orig.nodes[k], back.nodes[k], f"{path}/{k}")
            if d:
                return d
    return None


def run(c):
    import nir
    base, withmd, other = (V.dec_recipe(c[k]) for k in ("base", "with", "other"))
    sig = repr(c["with"])
    b = try_build(withmd)
    if b[0] != "ok":
        return Outcome(None, None, False, sig)
    g1 = b[1]
    fail = None
    coq = None
    trees = {}
    writable = True
    for name, r in (("base", base), ("with", withmd), ("other", other)):
        g = V.build(r)
        bio = io.BytesIO()
        try:
            with quiet():
                nir.write(bio, g)
        except BaseException as e:  # noqa: BLE001
            trees[name] = ("unwritable", type(e).__name__)
            if name == "base":
                writable = False
            continue
        with h5py.File(bio, "r") as f:
            trees[name] = strip_tree(raw_tree(f))
        if name == "with":
            try:
                with quiet():
                    g2 = nir.read(bio)
                coq = cops(withmd, ["file"], ("ok", g2))
                fail = md_equal(g, g2)
            except BaseException as e:  # noqa: BLE001
                fail = f"read of the file with metadata raised {type(e).__name__}: {e}"
    if not fail and writable:
        for name in ("with", "other"):
            if trees[name] != trees["base"]:
                if trees[name][0] == "unwritable":
                    fail = f"attaching metadata made the graph unwritable: {trees[name][1]}"
                else:
                    fail = f"datasets outside */metadata differ between the file without metadata and the file '{name}'"
                break
    if not fail and writable and trees.get("with", ("unwritable",))[0] != "unwritable" and zlib.crc32(sig.encode()) % 3 == 0:
        # a write that is REJECTED because of a metadata entry (a key no file can hold, a value h5py cannot store), then the
        # corrected graph written to the same path: the second write must succeed and carry its metadata
        import os
        import tempfile
        with tempfile.TemporaryDirectory() as tdir:
            for spell in (str, pathlib.Path):
                pth = spell(os.path.join(tdir, "model.nir"))
                gbad = V.build(withmd)
                for bad in ({"bad/key": 1}, {"k": object()}):
                    gbad.metadata = bad
                    try:
                        with quiet():
                            nir.write(pth, gbad)
                    except BaseException:  # noqa: BLE001
                        pass
                try:
                    with quiet():
                        g_ok = V.build(withmd)
                        nir.write(pth, g_ok)
                        g_back = nir.read(pth)
                    fail = md_equal(g_ok, g_back)
                    if fail:
                        fail = "after a rejected write to the same path: " + fail
                except BaseException as e:  # noqa: BLE001
                    fail = f"a legal graph with metadata could not be written / read after a rejected write to the same path: {type(e).__name__}: {e}"
                if fail:
                    break
    if not fail and writable:
        # changing metadata IN PLACE on one node of a deserialised graph must not change any other node
        for how in ("file", "dict"):
            try:
                with quiet():
                    g0 = V.build(base)
                    if how == "file":
                        bio = io.BytesIO()
                        nir.write(bio, g0)
                        gg = nir.read(bio)
                    else:
                        gg = nir.NIRGraph.from_dict(g0.to_dict())
            except BaseException:  # noqa: BLE001
                break
            objs = []
            def walk(n, path):
                objs.append((path, n))
                if type(n).__name__ == "NIRGraph":
                    for k, ch in n.nodes.items():
                        walk(ch, path + "/" + k)
            walk(gg, "root")
            for i in (0, len(objs) - 1):
                path, n = objs[i]
                before = [(p, repr(sorted(x.metadata.items()))) for p, x in objs if x is not n]
                n.metadata["attached-later"] = "v"
                after = [(p, repr(sorted(x.metadata.items()))) for p, x in objs if x is not n]
                if before != after:
                    bad = [p for (p, a), (_, b2) in zip(before, after) if a != b2]
                    fail = (f"attaching metadata in place to {path} (graph obtained via {how}) also changed the "
                            f"metadata of {bad[:3]}")
                    break
                del n.metadata["attached-later"]
            if fail:
                break
    if not fail:
        b0 = behaviour(base)
        for name, r in (("with", withmd), ("other", other)):
            b1 = behaviour(r)
            for k in b0:
                if b0[k] != b1[k]:
                    fail = f"attaching/changing metadata changed {k}: {b1[k]} vs {b0[k]} without metadata"
                    break
            if fail:
                break
    nontriv = True
    return Outcome(coq, fail, nontriv, sig)
