"""C18 — Deserialisation is closed-world and strict."""
import builtins
import copy
import io

import h5py
import numpy as np

from .. import coqfmt as F
from .. import pyobs
from .. import sergen as S
from .. import values as V
from .common import Outcome, quiet

ID = "C18"
COQ_IMPORT = "Corr.CNodes"
COQ_CASE_TYPE = "g_case"
COQ_CHECK = "g_check"
THEOREMS = ["c18_whitelist", "c18_whitelist_exact", "c18_closed", "c18_unlisted_raises", "c18_bytes_tag_raises", "c18_unknown_key_raises", "c18_missing_mandatory_raises", "c18_tables_total"]
PROOF_FILES = ["Proofs/MirrorClosedProofs.v"]
RULE = ("type strings: every name bound in nir, nir.ir, nir.ir.* submodules, nir.serialization and builtins, case / "
        "whitespace / NUL / bytes variants of every legal name, random unicode — each with plausible fields; for each "
        "of the 18 serialisable kinds every single-field deletion and the insertion of a non-field key, at nesting "
        "depth 0..2; through nir.dict2NIRNode, NIRGraph.from_dict and nir.read of files edited with raw h5py. "
        "distinct = (type string / class, mutation, depth, entry point); non-trivial = all but the unmutated controls")
ASSUMPTIONS = ["python -O strips the assert-based whitelist: outside the quantifier (inputs), recorded in DESIGN.md",
               "input_type/output_type are init fields of several classes and therefore not 'non-field' keys"]

LEGAL = ["Conv1d", "Conv2d", "Delay", "Flatten", "Input", "NIRGraph", "Output", "Affine", "Linear", "Scale",
         "CubaLIF", "I", "IF", "LI", "LIF", "AvgPool2d", "SumPool2d", "Threshold"]
MANDATORY = {"Input": ["shape"], "Output": ["shape"], "Affine": ["weight", "bias"], "Linear": ["weight"],
             "Scale": ["scale"], "Conv1d": ["input_shape", "weight", "stride", "padding", "dilation", "groups", "bias"],
             "Conv2d": ["input_shape", "weight", "stride", "padding", "dilation", "groups", "bias"],
             "SumPool2d": ["kernel_size", "stride", "padding"], "AvgPool2d": ["kernel_size", "stride", "padding"],
             "Flatten": [], "Delay": ["delay"], "Threshold": ["threshold"], "I": ["r"], "IF": ["r", "v_threshold"],
             "LI": ["tau", "r", "v_leak"], "LIF": ["tau", "r", "v_leak", "v_threshold"],
             "CubaLIF": ["tau_syn", "tau_mem", "r", "v_leak", "v_threshold"], "NIRGraph": ["nodes", "edges"]}


def name_pool():
    import nir
    import nir.ir
    import nir.serialization
    import sys
    names = set()
    for mod in [nir, nir.ir, nir.serialization] + [m for k, m in sys.modules.items() if k.startswith("nir.ir.") and m]:
        names |= set(vars(mod))
    names |= set(dir(builtins))
    names |= {"Identity", "NIRNode", "str2NIRNode", "dict2NIRNode", "__all_ir", "_NIRNode", "object", "dict", "np", "numpy"}
    variants = set()
    for n in LEGAL:
        variants |= {n.lower(), n.upper(), " " + n, n + " ", n + "\n", n + "\x00", "\t" + n, n + "_", "nir." + n,
                     "ir." + n, n[:-1], n + n[-1], n.swapcase()}
    variants |= {"", "ünï", "日本", "Ⅰ", "ＩＦ", "Ι", "LІF", "𝐋𝐈𝐅"}
    return sorted(names | variants)


def valid_dict(rng, cls):
    """a valid dictionary form of a random node of class cls (via the real to_dict)"""
    for _ in range(200):
        r = S.rand_leaf(rng) if cls != "NIRGraph" else S.serial_graph(rng, depth=0, max_nodes=2)
        if r["k"] == cls:
            with quiet():
                d = V.build(r).to_dict()
            if any(v is None for v in d.values()):
                continue          # (an undefined port shape has no file form; these cases need a dictionary that does)
            return d
    raise RuntimeError(cls)


def gen(rng, tier):
    cases = []
    pool = name_pool()
    if tier == "quick":
        picked = rng.sample(pool, min(220, len(pool)))
        for n in ["NIRNode", "Identity", "object", "dict", "str2NIRNode", "lif", "LIF ", "Input\x00", "nir.LIF", "", "NIR", "Graph", "NIRgraph",
                  "nir", "NIRG", "Node", "Net", "Sequential", "Module", "Neuron", "Conv", "Pool", "Dense", "Lif", "IAF", "CUBA", "CubaLif"]:
            if n not in picked:
                picked.append(n)
    else:
        picked = pool
    for s in picked:
        cases.append({"kind": "typestr", "s": s, "like": rng.choice(LEGAL), "bytes": rng.random() < 0.1,
                      "fields": "like", "via": rng.choice(["dict2node", "graph", "file"]), "seed": rng.randrange(2 ** 30)})
        # the bare form: a class without mandatory fields would be constructed from the type string alone
        cases.append({"kind": "typestr", "s": s, "like": rng.choice(LEGAL), "bytes": False,
                      "fields": rng.choice(["none", "metadata"]), "via": rng.choice(["dict2node", "graph", "file"]),
                      "seed": rng.randrange(2 ** 30)})
    # every NIRNode subclass that exists in the process but is not a serialisable primitive, addressed by its own name and
    # with the fields its own constructor wants
    for nm in sorted(all_subclasses()):
        if nm not in LEGAL:
            for via in ["dict2node", "graph", "file"]:
                cases.append({"kind": "typestr", "s": nm, "like": "Scale", "bytes": False, "fields": "own", "via": via,
                              "seed": rng.randrange(2 ** 30)})
    # names that could be (legacy / abbreviated) aliases, each tried with the fields of EVERY kind of node incl. a graph
    for s_ in ["NIR", "Graph", "NIRgraph", "nir", "NIRG", "Node", "Net", "Sequential", "Lif", "IAF", "CUBA", "CubaLif", "Dense", "Conv", "Pool", "Identity"]:
        for like in ["NIRGraph", "LIF", "Linear", "Conv2d", "CubaLIF", "Input"]:
            cases.append({"kind": "typestr", "s": s_, "like": like, "bytes": False, "fields": "like", "via": rng.choice(["dict2node", "graph", "file"]),
                          "seed": rng.randrange(2 ** 30)})
    reps = 1 if tier == "quick" else 6
    for cls in LEGAL:
        for _ in range(reps):
            seed = rng.randrange(2 ** 30)
            cases.append({"kind": "fields", "cls": cls, "mut": ["none"], "depth": 0, "via": "dict2node", "seed": seed})
            keys = MANDATORY[cls] + ["metadata", "type"] + {"CubaLIF": ["w_in"], "Flatten": ["start_dim", "end_dim", "input_type"]}.get(cls, [])
            for k in keys:
                cases.append({"kind": "fields", "cls": cls, "mut": ["del", k], "depth": rng.choice([0, 1, 2]),
                              "via": rng.choice(["dict2node", "graph", "file"]), "seed": seed})
            for k in ["bogus", "Weight", "shape_", "nodes2", "TYPE"]:
                cases.append({"kind": "fields", "cls": cls, "mut": ["add", k], "depth": rng.choice([0, 1, 2]),
                              "via": rng.choice(["dict2node", "graph", "file"]), "seed": seed})
            # names a later format version or another framework might plausibly store, with "harmless" values
            for k in rng.sample(["v_reset", "v_rest", "tau_ref", "dt", "spike_grad", "reset", "version", "name", "v_reset"], 3):
                cases.append({"kind": "fields", "cls": cls, "mut": ["add", k, rng.choice(["zeros", "zero", "none", "empty", "false"])],
                              "depth": rng.choice([0, 1, 2]), "via": rng.choice(["dict2node", "graph", "file"]), "seed": seed})
            # a key of type bytes that spells one of the node's OWN field names (dictionary path), and an unknown member stored
            # with a null dataspace (file path)
            for k in rng.sample(MANDATORY[cls] + ["metadata", "type"], min(2, len(MANDATORY[cls]) + 2)):
                cases.append({"kind": "fields", "cls": cls, "mut": ["addbytes", k], "depth": rng.choice([0, 1, 2]),
                              "via": rng.choice(["dict2node", "graph"]), "seed": seed})
            cases.append({"kind": "fields", "cls": cls, "mut": ["add", rng.choice(["v_reset", "foo", "refractory"]), "h5empty"],
                          "depth": rng.choice([1, 2]), "via": "file", "seed": seed})
            # an unknown member that is a LINK (soft / second hard link) to a member the node does have
            for kind in ["soft", "hard"]:
                cases.append({"kind": "fields", "cls": cls, "mut": ["addlink", "zz_extra" if kind == "hard" else "alias", kind],
                              "depth": rng.choice([1, 2]), "via": "file", "seed": seed})
    # type strings stored as RAW bytes that are not valid UTF-8 but contain / surround a primitive's name
    for raw in [b"LIF\xff", b"\xc3LIF", b"L\xf0\x9fIF", b"\xffInput", b"Scale\x80", b"NIRGraph\xfe", b"\xe9"]:
        cases.append({"kind": "rawtype", "raw": raw.hex(), "like": rng.choice(["LIF", "Scale", "Input"]), "depth": rng.choice([1, 2]), "seed": rng.randrange(2 ** 30)})
    # a path that held a valid file is re-used for a malformed one with the same size and time stamp (cp -p, rsync -t,
    # archive extraction, coarse-grained file systems): strictness must not depend on what was read from that path before
    for cls in (rng.sample(LEGAL, 6) if tier == "quick" else LEGAL * 2):
        if cls != "NIRGraph":
            cases.append({"kind": "stalepath", "cls": cls, "how": rng.choice(["deltype", "delfield", "badtype"]), "seed": rng.randrange(2 ** 30)})
    # classes defined by the USER of the library after import (last: they stay defined for the rest of the process):
    # one with a new name, one that happens to be called like a primitive
    for nm in ["UserDefinedNode", "LIF"]:
        for via in ["dict2node", "graph", "file"]:
            cases.append({"kind": "typestr", "s": nm, "like": "LIF", "bytes": False, "fields": "user", "via": via,
                          "seed": rng.randrange(2 ** 30)})
    return cases


def all_subclasses():
    import nir
    out, todo = {}, [nir.NIRNode]
    while todo:
        c = todo.pop()
        for sc in c.__subclasses__():
            if sc.__name__ not in out:
                out[sc.__name__] = sc
                todo.append(sc)
    return out


USER_DEFINED = {}


def define_user_class(name):
    """what a user of the library may do: subclass NIRNode in their own code"""
    import dataclasses
    import nir
    if name not in USER_DEFINED:
        def post(self):
            self.input_type = {"input": np.array([1])}
            self.output_type = {"output": np.array([1])}
        USER_DEFINED[name] = dataclasses.make_dataclass(
            name, [("payload", object, dataclasses.field(default=None))], bases=(nir.NIRNode,), eq=False,
            namespace={"__post_init__": post, "__module__": "user_code"})
    return USER_DEFINED[name]


def wrap(d, depth):
    # the node under test sits among valid siblings — leaves and whole sub-graphs, before and after it both in insertion order and
    # in name order (a file returns members by name): a rejection must not depend on what else the enclosing graph contains
    def sub():
        return {"type": "NIRGraph", "nodes": {"s": {"type": "Scale", "scale": np.ones(2, dtype="float32"), "metadata": {}}},
                "edges": [("s", "s")], "metadata": {}}
    for i in range(depth):
        nodes = {}
        if i % 2 == 0:
            nodes["a_sub"] = sub()
            nodes["a_leaf"] = {"type": "Scale", "scale": np.ones(3, dtype="float32"), "metadata": {}}
        nodes[f"lvl{i}"] = d
        nodes["z_leaf"] = {"type": "Threshold", "threshold": np.ones(2, dtype="float32"), "metadata": {}}
        nodes["z_sub"] = sub()
        d = {"type": "NIRGraph", "nodes": nodes, "edges": [], "metadata": {}}
    return d


def unwrap_node(n, depth):
    for i in reversed(range(depth)):
        n = n.nodes[f"lvl{i}"]
    return n


VERSIONS = ["0.0-test", "0.0.3", "0.0.1", "0.1.0", "0.1.1", "0.2.0", "1.0.0", "0.0.", None, "current"]


def to_file(d, version="0.0-test"):
    """independent raw-h5py writer of a dictionary form"""
    bio = io.BytesIO()
    def rec(grp, dd):
        for k, v in dd.items():
            if isinstance(v, dict):
                if k == "metadata" and v == {}:
                    continue
                rec(grp.create_group(k), v)
            elif isinstance(v, (str, bytes)):
                grp.create_dataset(k, data=v, dtype=h5py.string_dtype())
            elif isinstance(v, list) and k == "edges":
                grp.create_dataset(k, data=v if v else [])
            else:
                grp.create_dataset(k, data=v)
    with h5py.File(bio, "w") as f:
        if version == "current":
            import nir
            version = nir.version
        if version is not None:      # what the file claims about its producer must not make the reader lenient
            f.create_dataset("version", data=version)
        rec(f.create_group("node"), d)
    return bio


def run_stalepath(c):
    import os
    import random
    import shutil
    import tempfile
    import nir
    rng = random.Random(c["seed"])
    d = wrap(valid_dict(rng, c["cls"]), 1)
    tmp = tempfile.mkdtemp(prefix="nirverif_c18_")
    fail = None
    sig = ("stalepath", c["cls"], c["how"])
    try:
        p = os.path.join(tmp, "model.nir")
        open(p, "wb").write(to_file(d, "current").getvalue())
        try:
            with quiet():
                nir.read(p)
        except BaseException as e:  # noqa: BLE001
            return Outcome(None, f"a valid {c['cls']} file was rejected with {type(e).__name__}", True, sig)
        st = os.stat(p)
        with h5py.File(p, "r+") as f:
            grp = f["node/nodes/lvl0"]
            if c["how"] == "deltype":
                del grp["type"]
            elif c["how"] == "delfield" and MANDATORY[c["cls"]]:
                del grp[rng.choice(MANDATORY[c["cls"]])]
            else:
                del grp["type"]
                grp.create_dataset("type", data="NIRNode", dtype=h5py.string_dtype())
        os.utime(p, ns=(st.st_atime_ns, st.st_mtime_ns))
        same = os.stat(p).st_size == st.st_size
        try:
            with quiet():
                n = nir.read(p)
            fail = (f"{c['cls']} file with {c['how']} was accepted (returned {type(n).__name__}) when read from a path that held a valid "
                    f"file before (same mtime, size {'unchanged' if same else 'changed'})")
        except BaseException:  # noqa: BLE001
            pass
    finally:
        shutil.rmtree(tmp, ignore_errors=True)
    return Outcome(None, fail, True, sig)


def run_rawtype(c):
    import random
    import nir
    rng = random.Random(c["seed"])
    full = wrap(valid_dict(rng, c["like"]), c["depth"])
    bio = to_file(full, "current")
    raw = bytes.fromhex(c["raw"])
    with h5py.File(bio, "r+") as f:
        grp = f["node" + "".join(f"/nodes/lvl{i}" for i in reversed(range(c["depth"])))]
        del grp["type"]
        grp.create_dataset("type", data=np.bytes_(raw))
    fail = None
    try:
        with quiet():
            n = nir.read(bio)
        fail = (f"a file whose type dataset holds the raw bytes {raw!r} (not valid UTF-8, not a primitive's name) was accepted: "
                f"returned {type(unwrap_node(n, c['depth'])).__name__}")
    except BaseException:  # noqa: BLE001
        pass
    return Outcome(None, fail, True, ("rawtype", c["raw"], c["depth"]))


def run(c):
    import random
    import nir
    if c["kind"] == "stalepath":
        return run_stalepath(c)
    if c["kind"] == "rawtype":
        return run_rawtype(c)
    rng = random.Random(c["seed"])
    if c["kind"] == "typestr":
        d = valid_dict(rng, c["like"])
        if c.get("fields", "like") == "none":
            d = {}
        elif c.get("fields") == "metadata":
            d = {"metadata": {"note": "x"}}
        elif c.get("fields") == "own":
            import dataclasses
            cls = all_subclasses().get(c["s"])
            d = {}
            if cls is not None and dataclasses.is_dataclass(cls):
                for f in dataclasses.fields(cls):
                    if f.init and f.default is dataclasses.MISSING and f.default_factory is dataclasses.MISSING:
                        d[f.name] = {"input": np.array([2])} if f.name.endswith("_type") else np.array([2.0])
        elif c.get("fields") == "user":
            define_user_class(c["s"])
            if c["s"] not in LEGAL:
                d = {"payload": np.array([1.0, 2.0])}
        d["type"] = c["s"].encode("utf8", "surrogatepass") if c["bytes"] else c["s"]
        depth = 0
        expect_ok = (c["s"] == c["like"]) and not c["bytes"] and c.get("fields", "like") in ("like", "user")
        if c.get("fields", "like") not in ("like", "user") and c["s"] in LEGAL:
            expect_ok = None if not MANDATORY[c["s"]] else False
        if c["s"] in LEGAL and c["s"] != c["like"] and not c["bytes"]:
            expect_ok = None    # a legal name with another class's fields: may or may not construct; only the class matters
        want_cls = c["s"]
    else:
        d = valid_dict(rng, c["cls"])
        depth = c["depth"]
        mut = c["mut"]
        expect_ok = True
        if mut[0] == "del":
            if mut[1] not in d:
                return Outcome(None, None, False, ("absent",) + tuple(mut))
            del d[mut[1]]
            expect_ok = not (mut[1] in MANDATORY[c["cls"]] or mut[1] == "type")
        elif mut[0] == "add":
            kind = mut[2] if len(mut) > 2 else "arr"
            some = next((v for v in d.values() if isinstance(v, np.ndarray)), np.ones(2))
            if mut[1] in d:
                return Outcome(None, None, False, ("present",) + tuple(mut))
            d[mut[1]] = {"arr": np.array([1, 2]), "zeros": np.zeros_like(some), "zero": 0.0, "none": np.zeros(()), "empty": np.zeros(0),
                         "false": False, "h5empty": h5py.Empty("f")}[kind]
            expect_ok = False
        elif mut[0] == "addlink":
            expect_ok = False
        elif mut[0] == "addbytes":
            if mut[1] not in d:
                return Outcome(None, None, False, ("absent",) + tuple(mut))
            v0 = d[mut[1]]
            d[mut[1].encode()] = np.zeros_like(v0) if isinstance(v0, np.ndarray) else ({} if isinstance(v0, dict) else "NIRGraph" if mut[1] == "type" else 0)
            expect_ok = False
        want_cls = c["cls"]
    full = wrap(d, depth)
    via = c["via"]
    if via == "file" and any(isinstance(v, bytes) for v in d.values() if not isinstance(v, dict)):
        via = "dict2node"
    coq = None
    try:
        with quiet():
            if via == "dict2node":
                coq_in = F.pval(copy.deepcopy(full))
                n = nir.dict2NIRNode(copy.deepcopy(full))
            elif via == "graph":
                full = wrap(d, max(depth, 1))
                depth = max(depth, 1)
                coq_in = F.pval(copy.deepcopy(full))
                n = nir.NIRGraph.from_dict(copy.deepcopy(full))
            else:
                full = wrap(d, max(depth, 1))
                depth = max(depth, 1)
                bio = to_file(full, rng.choice(VERSIONS))
                if c["kind"] == "fields" and c["mut"][0] == "addlink":
                    with h5py.File(bio, "r+") as f:
                        path = "node" + "".join(f"/nodes/lvl{i}" for i in reversed(range(depth)))
                        grp = f[path]
                        target = next(k for k in grp.keys() if isinstance(grp[k], h5py.Dataset) and k != "type")
                        if c["mut"][2] == "soft":
                            grp[c["mut"][1]] = h5py.SoftLink(f"/{path}/{target}")
                        else:
                            grp[c["mut"][1]] = grp[target]
                with h5py.File(bio, "r") as f:
                    coq_in = pyobs.h5_term(f)
                n = nir.read(bio)
        obs = ("ok", n)
    except BaseException as e:  # noqa: BLE001
        obs = ("err", type(e).__name__)
    try:
        o = f"(Ok {pyobs.node_term(obs[1])})" if obs[0] == "ok" else "(Err OtherError)"
        coq = f"(CRead {coq_in} {o})" if via == "file" else f"(CFromDict {coq_in} {o})"
    except Exception:
        coq = None     # an object the model has no term for was constructed: the oracle below reports it
    if c["kind"] == "fields" and c["mut"][0] == "addbytes":
        coq = None     # dictionary keys of the model are strings: a bytes key has no term; decided by the oracle alone
    fail = None
    desc = f"type={d.get('type')!r} via {via} depth {depth}" + (f" mutation {c['mut']} on {c['cls']}" if c["kind"] == "fields" else "")
    if obs[0] == "ok":
        try:
            inner = unwrap_node(obs[1], depth)
        except Exception:
            inner = obs[1]
        if want_cls not in LEGAL or (c["kind"] == "typestr" and c["bytes"] and via != "file"):
            fail = f"{desc}: an object of class {type(inner).__name__} was constructed from a type string that is not a serialisable primitive"
        elif type(inner).__name__ != want_cls or type(inner) is not getattr(nir, want_cls):
            fail = f"{desc}: constructed {type(inner)!r}, the type string names {want_cls}"
        elif expect_ok is False:
            fail = f"{desc}: accepted (returned {type(inner).__name__}) although a mandatory field is missing or an unknown field is present"
    elif expect_ok is True:
        fail = f"{desc}: a valid dictionary was rejected with {obs[1]}"
    sig = (c["kind"], c.get("s"), c.get("cls"), tuple(c.get("mut", [])), depth, via, c.get("fields"))
    return Outcome(coq, fail, not (c["kind"] == "fields" and c["mut"] == ["none"]), sig)
