"""Strict comparators for graphs before/after serialisation, written from the property texts."""
import dataclasses
import io

import numpy as np

from .. import coqfmt as F
from .. import pyobs
from .. import values as V
from .common import quiet


def num_equal(a, b, strict_arrays=True):
    """a: original value, b: value that came back.  'compared as numbers and arrays'"""
    if a is None or b is None:
        return a is None and b is None
    if isinstance(a, dict):
        if not isinstance(b, dict) or set(a.keys()) != set(b.keys()):
            return False
        return all(num_equal(a[k], b[k], strict_arrays) for k in a)
    if isinstance(a, (str, bytes)):
        ta = a.decode("utf8") if isinstance(a, bytes) else str(a)
        if isinstance(b, bytes):
            b = b.decode("utf8")
        return isinstance(b, str) and ta == b
    if isinstance(a, np.ndarray):
        bb = np.asarray(b)
        if a.dtype.kind == "O":
            return a.shape == bb.shape and all(num_equal(x, y) for x, y in zip(a.reshape(-1), bb.reshape(-1)))
        if strict_arrays:
            da, db = a.dtype, bb.dtype
            if a.ndim == 0:
                # a 0-d array comes back as a numpy SCALAR, which is always in native byte order
                da, db = da.newbyteorder("="), db.newbyteorder("=")
                a, bb = a.astype(da), bb.astype(db)
            if da != db or a.shape != bb.shape or F.canon_bytes(a) != F.canon_bytes(bb):
                return False
        return a.shape == bb.shape and np.array_equal(a, bb, equal_nan=True)
    if isinstance(a, (tuple, list)) and len(a) > 0 and all(isinstance(x, (str, bytes, tuple, list)) for x in a):
        try:
            return len(a) == len(b) and all(num_equal(x, y, strict_arrays) for x, y in zip(a, b))
        except TypeError:
            return False
    # Python / numpy scalars, numeric tuples and lists: equal value, shape of np.asarray
    try:
        aa, bb = np.asarray(a), np.asarray(b)
    except Exception:
        return False
    if isinstance(a, (bool, np.bool_)) and bb.dtype.kind != "b":
        return False          # True must not come back as the integer 1
    if aa.dtype.kind in "OUS" or bb.dtype.kind in "OUS":
        return False
    if aa.shape != bb.shape:
        return False
    return bool(np.array_equal(aa, bb, equal_nan=True))


def same_type_dict(a, b):
    if a is None or b is None:
        return a is None and b is None
    if not isinstance(a, dict) or not isinstance(b, dict) or set(a.keys()) != set(b.keys()):
        return False
    for k in a:
        x, y = a[k], b[k]
        if x is None or y is None:
            if not (x is None and y is None):
                return False
        elif isinstance(x, dict) or isinstance(y, dict):
            if not same_type_dict(x, y):
                return False
        else:
            xa, ya = np.asarray(x), np.asarray(y)
            if xa.shape != ya.shape or not np.array_equal(xa, ya):
                return False
    return True


def compare_graphs(orig, back, recipe, path="root", strict_arrays=True, strict_types=False):
    """None when `back` is equivalent to `orig` in the sense of C01, else a description.
    `recipe` rebuilds every node afresh for the type comparison."""
    co, cb = type(orig).__name__, type(back).__name__
    if co != cb:
        return f"{path}: primitive type {cb} != {co}"
    if co == "NIRGraph":
        if set(orig.nodes.keys()) != set(back.nodes.keys()):
            return f"{path}: node names {sorted(back.nodes)} != {sorted(orig.nodes)}"
        eo = [(str(a), str(b)) for a, b in orig.edges]
        eb = [(a, b) for a, b in back.edges]
        if eo != eb or not all(isinstance(a, str) and isinstance(b, str) for a, b in back.edges):
            return f"{path}: edge list {back.edges} != {orig.edges}"
        if not num_equal(orig.metadata, back.metadata, strict_arrays):
            return f"{path}: metadata {back.metadata!r} != {orig.metadata!r}"
        for k in orig.nodes:
            rk = recipe["nodes"][k]
            if rk["k"] == "__alias__":
                rk = recipe["nodes"][rk["of"]]
            d = compare_graphs(orig.nodes[k], back.nodes[k], rk, f"{path}/{k}", strict_arrays, strict_types)
            if d:
                return d
        fresh = V.build(recipe)
        if not same_type_dict(fresh.input_type, back.input_type) or not same_type_dict(fresh.output_type, back.output_type):
            return f"{path}: graph-level types {back.input_type} / {back.output_type} differ from a fresh construction {fresh.input_type} / {fresh.output_type}"
        return None
    for f in dataclasses.fields(orig):
        if f.name in ("input_type", "output_type"):
            continue
        a, b = getattr(orig, f.name), getattr(back, f.name)
        if not num_equal(a, b, strict_arrays):
            return f"{path}.{f.name}: {b!r} != {a!r}"
        if strict_types and type(a) is not type(b):
            return f"{path}.{f.name}: Python type {type(b).__name__} != {type(a).__name__}"
    with quiet():
        fresh = V.build(recipe)
    if not same_type_dict(fresh.input_type, back.input_type) or not same_type_dict(fresh.output_type, back.output_type):
        return (f"{path}: types {back.input_type} -> {back.output_type} differ from those of a fresh construction "
                f"{fresh.input_type} -> {fresh.output_type}")
    if strict_types:
        # identical Python/numpy value types: the shape annotations too (container, dtype)
        for nm in ("input_type", "output_type"):
            a, b = getattr(orig, nm), getattr(back, nm)
            if isinstance(a, dict) and isinstance(b, dict):
                for k in a:
                    if k in b and (type(a[k]) is not type(b[k]) or
                                   (isinstance(a[k], np.ndarray) and a[k].dtype != b[k].dtype)):
                        return (f"{path}.{nm}[{k!r}]: value type {type(b[k]).__name__}"
                                f"{'/' + str(b[k].dtype) if isinstance(b[k], np.ndarray) else ''} != {type(a[k]).__name__}"
                                f"{'/' + str(a[k].dtype) if isinstance(a[k], np.ndarray) else ''}")
    return None


def file_roundtrip(g):
    import nir
    bio = io.BytesIO()
    nir.write(bio, g)
    return nir.read(bio), bio


def cops(recipe, ops, res):
    obs = f"(Ok {pyobs.node_term(res[1])})" if res[0] == "ok" else "(Err OtherError)"
    return f"(COps {pyobs.nexpr(recipe)} {pyobs.ops_term(ops)} {obs})"
