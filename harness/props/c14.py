"""C14 — Type inference commutes with serialisation."""
import io
import itertools

import numpy as np

from .. import graphgen as G
from .. import values as V
from .common import Outcome, quiet, time_limit, try_build, tval, Timeout
from .sercommon import cops

ID = "C14"
COQ_IMPORT = "Corr.CNodes"
COQ_CASE_TYPE = "g_case"
COQ_CHECK = "g_check"
THEOREMS = ["c14_annotations_survive_file", "c14_conv1d_regain", "c14_conv2d_regain", "c14_conv2d_regain_after_file", "c14_constructors_respect_similarity", "c14_round_trip_values_are_similar", "c14_conv_arithmetic_respects_similarity", "c14_inference_changes_only_annotations", "c14_infer_commutes_with_file", "c14_infer_commutes_with_dict", "c14_infer_respects_relation", "c14_check_respects_relation"]
PROOF_FILES = ["Proofs/InferSimProofs.v", "Proofs/LayoutProofs.v", "Proofs/SimProofs.v", "Proofs/RoundTripProofs.v", "Proofs/SerialProofs.v", "Proofs/InferProofs.v"]
RULE = ("the C08 generator of consistent graphs (with and without erased annotations); histories over "
        "{infer_types, write+read, to_dict+from_dict} of length <= 4: all 3^k interleavings for k <= 3 on a sample of "
        "graphs in the thorough tier, random ones in quick; after the history one more infer_types(); every node's types "
        "are compared with those of infer_types() on the freshly built graph; after [infer, write+read] the "
        "annotations the file carries (Conv input_shape, Flatten input, Input/Output shape) must already be back. "
        "distinct = (recipe, history); non-trivial = history contains a round trip and the graph has an erasable site")
ASSUMPTIONS = ["a history stops at the first operation that raises (e.g. writing a graph with undefined annotations)"]

OPS = ["infer", "file", "dict"]


def gen(rng, tier):
    cases = []
    N = 110 if tier == "quick" else 900
    for _ in range(N):
        cg = G.consistent_graph(rng, max_nodes=rng.choice([3, 6, 10]))
        if rng.random() < 0.6 or "gconv" in cg["erasable"].values():
            r, done = G.erase(rng, cg, wrong_outputs=False)
        else:
            r, done = cg["recipe"], []
        hists = []
        if tier == "thorough" and rng.random() < 0.25:
            for k in range(1, 4):
                hists += [list(h) for h in itertools.product(OPS, repeat=k)]
        else:
            for _ in range(2):
                hists.append([rng.choice(OPS) for _ in range(rng.randint(1, 4))])
            hists.append(["infer", "file"])
        for h in hists:
            cases.append({"kind": "hist", "recipe": V.enc_recipe(r), "hist": h, "erased": len(done)})
    # un-annotated convolutions behind an input that is SMALLER than the (dilated) kernel: the size formula then yields zero or
    # negative lengths; whatever inference declares must come back from a file / dictionary exactly like any other shape
    import numpy as np
    for _ in range(8 if tier == "quick" else 80):
        nd = rng.choice([1, 2])
        n = [rng.randint(1, 4) for _ in range(nd)]
        k = [rng.randint(5, 9) for _ in range(nd)]
        cin, cout = rng.choice([1, 2]), rng.choice([1, 3])
        conv = {"k": "Conv1d" if nd == 1 else "Conv2d",
                "args": {"input_shape": None, "weight": np.ones([cout, cin] + k, dtype="float32"), "stride": rng.choice([1, 2]),
                         "padding": 0, "dilation": rng.choice([1, 2]), "groups": 1, "bias": np.zeros(cout, dtype="float32")}}
        r = {"k": "NIRGraph", "nodes": {"input": {"k": "Input", "args": {"input_type": np.array([cin] + n, dtype=np.int64)}},
                                        "conv": conv, "output": {"k": "Output", "args": {"output_type": None}}},
             "edges": [("input", "conv"), ("conv", "output")]}
        for h in (["infer", "file"], ["infer", "dict"], ["infer", "file", "infer"], ["infer", "dict", "infer", "file"]):
            cases.append({"kind": "hist", "recipe": V.enc_recipe(r), "hist": h, "erased": 2})
    return cases


def types_of(g):
    out = {}
    for k, n in g.nodes.items():
        out[k] = (tval(n.input_type, "input"), tval(n.output_type, "output"))
    return out


def apply(g, op):
    import nir
    if op == "infer":
        g.infer_types()
        return g
    if op == "dict":
        return nir.NIRGraph.from_dict(g.to_dict())
    bio = io.BytesIO()
    nir.write(bio, g)
    return nir.read(bio)


def run(c):
    r = V.dec_recipe(c["recipe"])
    sig = repr((c["recipe"], c["hist"]))
    nontriv = c["erased"] > 0 and any(o != "infer" for o in c["hist"])
    ref = try_build(r)
    if ref[0] != "ok":
        return Outcome(None, None, False, sig)
    try:
        with quiet(), time_limit(20):
            ref[1].infer_types()
        t_ref = types_of(ref[1])
    except Timeout:
        raise
    except BaseException:  # noqa: BLE001
        return Outcome(None, None, False, sig)
    g = try_build(r)[1]
    done = []
    fail = None
    with time_limit(30):
        for op in c["hist"]:
            try:
                with quiet():
                    g = apply(g, op)
            except Timeout:
                raise
            except BaseException as e:  # noqa: BLE001
                if "infer" in done or c["erased"] == 0:
                    fail = f"after {done}, {op} raised {type(e).__name__}: {e} on a graph whose annotations are all defined or inferred"
                break
            done.append(op)
            if done[-2:] == ["infer", "file"] or done[-2:] == ["infer", "dict"]:
                # what the file carries is back without inference
                for k, n in g.nodes.items():
                    if type(n).__name__ in ("Conv1d", "Conv2d", "Flatten", "Input", "Output"):
                        got = (tval(n.input_type, "input"), tval(n.output_type, "output"))
                        want = t_ref[k]
                        if type(n).__name__ in ("Conv1d", "Conv2d") and getattr(n, "groups", 1) != 1 and isinstance(got[0], list) and isinstance(want[0], list):
                            # grouped convolution: the constructor declares C_in/groups channels; what the file carries is
                            # the spatial annotation (and the output type)
                            got, want = (got[0][1:], got[1]), (want[0][1:], want[1])
                        if got != want:
                            fail = (f"after {done}: annotation of {k} ({type(n).__name__}) not regained from the "
                                    f"serialised form: {n.input_type} -> {n.output_type}, inferred graph had {t_ref[k]}")
                            break
            if fail:
                break
    ops_done = list(done)
    coq = None
    if not fail and done == c["hist"]:
        try:
            with quiet(), time_limit(20):
                g.infer_types()
            t = types_of(g)
            if t != t_ref:
                bad = [k for k in t_ref if t.get(k) != t_ref[k]]
                fail = (f"history {done} + infer_types(): node {bad[0]} has types {t.get(bad[0])}, infer_types() on the "
                        f"original graph gives {t_ref[bad[0]]}")
            coq = cops(r, done + ["infer"], ("ok", g))
        except Timeout:
            raise
        except BaseException as e:  # noqa: BLE001
            fail = f"history {done} then infer_types() raised {type(e).__name__}: {e}"
            coq = cops(r, done + ["infer"], ("err", "x"))
    return Outcome(coq, fail, nontriv, sig)
