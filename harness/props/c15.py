"""C15 — A file path behaves as a last-writer-wins register."""
import hashlib
import io
import os
import pathlib
import shutil
import tempfile

import numpy as np

from .. import coqfmt as F
from .. import pyobs
from .. import sergen as S
from .. import values as V
from .common import Outcome, quiet, try_build
from .sercommon import compare_graphs

ID = "C15"
COQ_IMPORT = "Corr.C15"
COQ_CASE_TYPE = "c15_case"
COQ_CHECK = "c15_check"
THEOREMS = ["c15_last_writer_wins", "c15_read_returns_last_write", "c15_reads_do_not_alter", "c15_no_residue",
            "c15_run_state"]
PROOF_FILES = ["Proofs/FSProofs.v"]
RULE = ("histories of length 1..12 over {write(g_i), read, read_version} on ONE filesystem path with graphs of very "
        "different sizes / primitives / metadata (big then small, with and without metadata, nested then flat), path "
        "given as str or pathlib.Path; plus io.BytesIO / tempfile targets with one write followed by 1..5 reads; after "
        "every step: read result compared with the most recent write (strict comparator), sha256 of the file before / "
        "after a read, number of open file descriptors (/proc/self/fd), and at the end rename + delete + re-create. "
        "distinct = history; non-trivial = >= 2 writes of different graphs or a file-object target")
ASSUMPTIONS = ["law A5: 'w' truncates, 'r' does not modify, the context manager closes the handle — OS/libhdf5 behaviour, "
               "observed here (fds, sha256, rename/delete), not provable in the model",
               "a write that raises leaves unspecified content (model state FUnspecified)"]


def sized_graph(rng, kind):
    if kind == "big":
        return S.serial_graph(rng, depth=2, max_nodes=7)
    if kind == "small":
        return S.serial_graph(rng, depth=0, max_nodes=1)
    if kind == "empty":
        return {"k": "NIRGraph", "nodes": {}, "edges": []}
    if kind == "meta":
        g = S.serial_graph(rng, depth=1, max_nodes=3)
        g["metadata"] = {"epoch": 7, "tags": {"a": "b"}, "arr": np.arange(50, dtype="float64")}
        return g
    return S.serial_graph(rng, depth=1, max_nodes=4)


FNAMES = ["register.nir", "register.nir", "model", "checkpoint_12", "data.h5", "a.b.c", "net v2 (final).nir", "mod\u00e8le.nir",
          ".hidden", "UPPER.NIR", "model.nir.tmp", "x.tmp", "model.bak", "model.nir~", "model.lock", "model.h5.part", "model.nir.swp",
          "tmp", "model.new", "model.old"]


def twin_graphs(rng):
    """two graphs of identical structure, shapes and dtypes whose parameters differ only in ONE interior element of a
    large array, or only below printing precision"""
    n = rng.choice([40, 64])
    w = (np.arange(n * n, dtype="float64").reshape(n, n) % 17) / 8.0
    w2 = w.copy()
    r = rng.random()
    if r < 0.2:
        # equal under ==, different bits: zeros of the other sign
        w[n // 2, :] = 0.0
        w2 = w.copy()
        w2[n // 2, ::2] = -0.0
    elif r < 0.35:
        w2[n // 2, n // 2] += 1.0
    elif r < 0.7:
        w2[n // 2, n // 2] += 1e-10
    else:
        # same architecture, same dtype KIND, other width: float32 first, then float64 values float32 cannot hold
        w = w.astype("float32")
        w2 = w2 + 1e-9
    def g(x):
        return {"k": "NIRGraph", "nodes": {"input": {"k": "Input", "args": {"input_type": np.array([n])}},
                                           "w": {"k": "Affine", "args": {"weight": x, "bias": np.zeros(n, dtype=x.dtype)}},
                                           "output": {"k": "Output", "args": {"output_type": np.array([n])}}},
                "edges": [("input", "w"), ("w", "output")]}
    return g(w), g(w2)


def gen(rng, tier):
    N = 60 if tier == "quick" else 700
    cases = []
    # near-identical graphs written one after the other to one path
    for _ in range(8 if tier == "quick" else 60):
        a, b = twin_graphs(rng)
        ops = [{"op": "write", "recipe": V.enc_recipe(a)}] + [{"op": "read"}] * rng.randint(0, 1) + \
              [{"op": "write", "recipe": V.enc_recipe(b)}, {"op": "read"}]
        if rng.random() < 0.5:
            ops += [{"op": "write", "recipe": V.enc_recipe(a)}, {"op": "read"}]
        cases.append({"kind": "hist", "target": rng.choice(["str", "path"]), "ops": ops, "fname": rng.choice(FNAMES),
                      "rel": rng.random() < 0.3})
    n_path = 0
    for _ in range(N):
        target = rng.choice(["str", "str", "path", "bytesio", "tempfile", "rawfile", "spooled"])
        ops = []
        if target in ("bytesio", "tempfile", "rawfile", "spooled"):
            ops.append({"op": "write", "recipe": V.enc_recipe(sized_graph(rng, rng.choice(["big", "small", "meta", "mid"])))})
            ops += [{"op": rng.choice(["read", "read", "version"])} for _ in range(rng.randint(1, 5))]
        else:
            L = rng.randint(1, 12)
            kinds = ["big", "small", "meta", "empty", "mid"]
            for i in range(L):
                r = rng.random()
                if i == 0 or r < 0.4:
                    ops.append({"op": "write", "recipe": V.enc_recipe(sized_graph(rng, rng.choice(kinds)))})
                elif r < 0.85:
                    ops.append({"op": "read"})
                else:
                    ops.append({"op": "version"})
            if rng.random() < 0.15:
                ops.insert(0, {"op": "read"})
        c = {"kind": "hist", "target": target, "ops": ops}
        if target in ("str", "path"):
            c["fname"] = FNAMES[n_path % len(FNAMES)]       # every name at least once per run
            n_path += 1
            c["pre"] = rng.choice(["none", "none", "none", "empty"])     # an empty placeholder file (mkstemp style) may exist
            c["rel"] = rng.random() < 0.25       # path given RELATIVE to a working directory entered after nir was imported
        cases.append(c)
    # a path that is rewritten very many times (a training loop that checkpoints to one file): every write is followed by a read;
    # nothing may accumulate from write to write (oracle only: the history is too long to be worth a model term)
    cases.append({"kind": "long", "n": 1200 if tier == "quick" else 5000, "target": rng.choice(["str", "path"])})
    return cases


def run_long(c):
    import nir
    import nir.serialization
    tmpdir = tempfile.mkdtemp(prefix="nirverif_c15_")
    p = os.path.join(tmpdir, "checkpoint.nir")
    tgt = p if c["target"] == "str" else pathlib.Path(p)
    fail = None
    size0 = None
    try:
        for i in range(c["n"]):
            g = nir.NIRGraph({"s": nir.Scale(np.array([float(i), 1.0], dtype="float32"))}, [("s", "s")])
            try:
                with quiet():
                    nir.write(tgt, g)
                    back = nir.read(tgt)
                    nir.serialization.read_version(tgt)
            except BaseException as e:  # noqa: BLE001
                fail = f"write #{i + 1} to one path, then read: raised {type(e).__name__}: {str(e)[:120]}"
                break
            if list(back.nodes) != ["s"] or back.nodes["s"].scale.tobytes() != g.nodes["s"].scale.tobytes() or [tuple(e) for e in back.edges] != [("s", "s")]:
                fail = f"after write #{i + 1} to one path read returned something else than the graph just written"
                break
            sz = os.path.getsize(p)
            if size0 is None:
                size0 = sz
            elif sz != size0:
                fail = f"the file of the same one-node graph has {sz} bytes after write #{i + 1} and had {size0} after the first: residue of earlier writes"
                break
    finally:
        shutil.rmtree(tmpdir, ignore_errors=True)
    return Outcome(None, fail, True, ("long", c["n"], c["target"]))


def nfds():
    return len(os.listdir("/proc/self/fd"))


def run(c):
    import nir
    import nir.serialization
    if c.get("kind") == "long":
        return run_long(c)
    tmpdir = tempfile.mkdtemp(prefix="nirverif_c15_")
    fobj = None
    cwd0 = os.getcwd()
    stray = os.path.join(cwd0, c.get("fname", "register.nir"))
    stray_existed = os.path.exists(stray)
    try:
        if c["target"] in ("str", "path"):
            p = os.path.join(tmpdir, c.get("fname", "register.nir"))
            tgt = p if c["target"] == "str" else pathlib.Path(p)
            if c.get("rel"):
                os.chdir(tmpdir)
                tgt = os.path.basename(p) if c["target"] == "str" else pathlib.Path(os.path.basename(p))
            if c.get("pre") == "empty":
                open(p, "wb").close()
        elif c["target"] == "bytesio":
            p = None
            tgt = fobj = io.BytesIO()
        elif c["target"] == "rawfile":
            p = None
            tgt = fobj = open(os.path.join(tmpdir, "raw.bin"), "w+b", buffering=0)      # an UNBUFFERED file object (io.FileIO)
        elif c["target"] == "spooled":
            p = None
            tgt = fobj = tempfile.SpooledTemporaryFile(max_size=10 ** 8, dir=tmpdir)
        else:
            p = None
            tgt = fobj = tempfile.TemporaryFile(dir=tmpdir)
        fail = None
        last = None          # (graph, recipe) of the most recent successful write
        unspecified = False
        xs, obs = [], []
        n_writes = 0
        for i, o in enumerate(c["ops"]):
            fd0 = nfds()
            if o["op"] == "write":
                r = V.dec_recipe(o["recipe"])
                xs.append(f"(XWrite {pyobs.nexpr(r)})")
                b = try_build(r)
                if b[0] != "ok":
                    obs.append("RAnything")
                    continue
                try:
                    with quiet():
                        nir.write(tgt, b[1])
                    last, unspecified = (b[1], r), False
                    obs.append("RWrote")
                    n_writes += 1
                    if p and not fail and sorted(os.listdir(tmpdir)) != [os.path.basename(p)]:
                        fail = (f"step {i}: after nir.write({os.path.basename(p)!r}) the directory contains "
                                f"{sorted(os.listdir(tmpdir))}: the path is not where the graph went, or residue was left")
                except BaseException:  # noqa: BLE001
                    unspecified = True
                    obs.append("RWriteRaised")
            elif o["op"] == "read":
                xs.append("XRead")
                h0 = hashlib.sha256(open(p, "rb").read()).hexdigest() if p and os.path.exists(p) else None
                try:
                    with quiet():
                        g = nir.read(tgt)
                    obs.append(f"(RGraph {pyobs.node_term(g)})")
                    if last is not None and not unspecified and not fail:
                        d = compare_graphs(last[0], g, last[1])
                        if d:
                            fail = f"step {i}: read does not return the most recently written graph: {d}"
                except BaseException as e:  # noqa: BLE001
                    obs.append("RReadRaised")
                    if last is not None and not unspecified and not fail:
                        fail = f"step {i}: read after a successful write raised {type(e).__name__}: {e}"
                if p and os.path.exists(p) and h0 != hashlib.sha256(open(p, "rb").read()).hexdigest() and not fail:
                    fail = f"step {i}: nir.read altered the file"
            else:
                xs.append("XReadVersion")
                try:
                    with quiet():
                        v = nir.serialization.read_version(tgt)
                    obs.append(f"(RVersion {F.cstr(v)})")
                    if last is not None and not unspecified and v != nir.version and not fail:
                        fail = f"step {i}: read_version returned {v!r}"
                except BaseException as e:  # noqa: BLE001
                    obs.append("RVersionRaised")
                    if last is not None and not unspecified and not fail:
                        fail = f"step {i}: read_version after a successful write raised {type(e).__name__}"
            if nfds() != fd0 and not fail:
                fail = f"step {i} ({o['op']}): the call left {nfds() - fd0} file descriptor(s) open"
        if p and not fail and os.path.exists(p):
            try:
                q = p + ".moved"
                os.rename(p, q)
                os.remove(q)
                if os.listdir(tmpdir):
                    raise RuntimeError(f"files left behind after the path was deleted: {sorted(os.listdir(tmpdir))}")
                with quiet():
                    nir.write(tgt, V.build({"k": "NIRGraph", "nodes": {}, "edges": []}))
                    nir.read(tgt)
            except BaseException as e:  # noqa: BLE001
                fail = f"rename / delete / re-create after the history failed: {type(e).__name__}: {e}"
        coq = "(Hist " + F.clist(xs) + " " + F.clist(obs) + ")"
        nontriv = n_writes >= 2 or fobj is not None
        return Outcome(coq, fail, nontriv, repr(c))
    finally:
        os.chdir(cwd0)
        if fobj is not None:
            fobj.close()
        shutil.rmtree(tmpdir, ignore_errors=True)
        if not stray_existed and os.path.isfile(stray) and c.get("rel"):
            os.remove(stray)          # a write that went to the import-time working directory instead of the path
