"""C19 — Constructors accept exactly the well-formed parameter sets."""
import itertools

import numpy as np

from .common import Outcome, cbuild, try_build, tval

ID = "C19"
COQ_IMPORT = "Corr.CNodes"
COQ_CASE_TYPE = "g_case"
COQ_CHECK = "g_check"
THEOREMS = ["c19_neuron", "c19_all_same", "c19_cuba_accepts", "c19_cuba_materialised",
            "c19_cuba_complete", "c19_cuba_rejects_up", "c19_linear", "c19_padding_text",
            "c19_padding_bytes", "c19_conv_rejects"]
PROOF_FILES = ["Proofs/ShapesProofs.v", "Proofs/NodesProofs.v"]
RULE = ("tuples of parameter shapes of rank 0..3 over axis lengths {1,2,3} per neuron class (mostly equal, "
        "with single deviations; exhaustive over a small shape alphabet in the thorough tier), weight ranks 0..5, "
        "CubaLIF w_in as Python scalar / numpy scalar / 0-d / (1,) / exact / broadcastable / up-broadcasting / "
        "non-broadcastable / larger rank; padding strings: 'same','valid', case / whitespace / empty / other "
        "words, bytes, np.str_, np.bytes_, with and without input_shape. distinct = parameter tuple; "
        "non-trivial = at least two parameters or a non-default form")
ASSUMPTIONS = ["python -O (asserts stripped) is outside the quantifier"]

NEURONS = {"IF": ["r", "v_threshold"], "LI": ["tau", "r", "v_leak"],
           "LIF": ["tau", "r", "v_leak", "v_threshold"],
           "CubaLIF": ["tau_syn", "tau_mem", "r", "v_leak", "v_threshold"]}
SHAPES = [(), (1,), (2,), (3,), (1, 1), (1, 2), (2, 1), (2, 2), (2, 3), (3, 2), (1, 2, 3), (2, 2, 2), (2, 1, 3)]
PADS = ["same", "valid", "Same", "SAME", " same", "same ", "valid\n", "", "full", "causal", "VALID",
        {"b": "same"}, {"b": "valid"}, {"b": "full"}, {"npstr": "same"}, {"npstr": "Valid"},
        {"npbytes": "same"}, 0, 1, (1, 1),
        # words that occur in the error message / documentation of the parameter, and other plausible spellings
        "int", "str", "tuple", "'same'", "same, valid", "same|valid", "same or valid", "None", "zeros", "reflect", "s", "sam",
        # text that Python's int() would parse
        "1", "0", " 2", "3\n", "-1", "+1", "1_0", "\u0663", "0x1", "1e0", "1.0", {"b": "1"}, {"npstr": "1"}, {"npbytes": "2"},
        "samee", "valid ", "\tvalid", "same\n", "sa\u006de", "s\u0430me", "\uff53\uff41\uff4d\uff45", "valid\x00"]


def gen(rng, tier):
    cases = []
    if tier == "thorough":
        small = [(), (1,), (2,), (1, 2), (2, 1), (2, 2)]
        for cls, ps in NEURONS.items():
            if len(ps) <= 3:
                for tup in itertools.product(small, repeat=len(ps)):
                    cases.append({"kind": "neuron", "cls": cls, "shapes": [list(s) for s in tup], "w_in": None})
        N = 2500
    else:
        N = 330
    # every padding value x {with, without input_shape} x {Conv1d, Conv2d}, in random order (what is accepted must not depend
    # on what was rejected earlier in the process)
    sweep = [(p, ws, cls) for p in PADS for ws in (False, True) for cls in ("Conv1d", "Conv2d")]
    rng.shuffle(sweep)
    for p, ws, cls in sweep:
        cases.append({"kind": "padding", "cls": cls, "pad": p, "with_shape": ws})
    for _ in range(N):
        r = rng.random()
        if r < 0.45:
            cls = rng.choice(list(NEURONS))
            base = rng.choice(SHAPES)
            shapes = [list(base) for _ in NEURONS[cls]]
            if rng.random() < 0.5:
                shapes[rng.randrange(len(shapes))] = list(rng.choice(SHAPES))
            w = None
            if cls == "CubaLIF":
                w = rng.choice([None, {"f": "py", "v": 2.0}, {"f": "pyint", "v": 3}, {"f": "np", "v": 0.5}, {"f": "negzero"}, {"f": "negzero", "arr": True},
                                {"f": "arr", "shape": []}, {"f": "arr", "shape": [1]},
                                {"f": "arr", "shape": list(base)}, {"f": "arr", "shape": list(base[-1:])},
                                {"f": "arr", "shape": [2] + list(base)}, {"f": "arr", "shape": [1] + list(base)},
                                {"f": "arr", "shape": list(rng.choice(SHAPES))},
                                {"f": "arr", "shape": list(rng.choice(SHAPES))},
                                # a nested Python list / tuple with exactly the parameter shape (weights loaded from JSON)
                                {"f": "nested", "box": "list"}, {"f": "nested", "box": "tuple"}])
            c0 = {"kind": "neuron", "cls": cls, "shapes": shapes, "w_in": w}
            r2 = rng.random()
            if r2 < 0.3:
                # parameter arrays of an integer / boolean / complex dtype; input weight of a "higher" kind than the parameters
                c0["dt"] = rng.choice(["int32", "int64", "bool", "uint8", "float16", "complex64"])
                if cls == "CubaLIF" and rng.random() < 0.4:
                    c0["w_in"] = rng.choice([{"f": "cplx"}, {"f": "arr", "shape": [], "dt": "complex128"}, {"f": "py", "v": 2.5}, None])
            if rng.random() < 0.25:
                c0["npscalar"] = [i for i in range(len(shapes)) if rng.random() < 0.6]
            cases.append(c0)
            if rng.random() < 0.15:
                # a rank-0 numpy scalar next to parameters of another shape (must be rejected like a 0-d array is)
                shapes3 = [list(base) if base else [3] for _ in NEURONS[cls]]
                j = rng.randrange(len(shapes3)); shapes3[j] = []
                cases.append({"kind": "neuron", "cls": cls, "shapes": shapes3, "w_in": None, "npscalar": [j]})
            if cls == "CubaLIF" and rng.random() < 0.5:
                # the parameters fall into GROUPS that agree internally but not with each other (time constants one shape,
                # membrane parameters another; or any other split into two groups)
                sa, sb = rng.sample([s2 for s2 in SHAPES], 2)
                split = rng.choice([[0, 0, 1, 1, 1], [0, 1, 0, 1, 0], [0, 0, 0, 1, 1], [1, 0, 0, 0, 0], [0, 1, 1, 1, 1]])
                cases.append({"kind": "neuron", "cls": cls, "shapes": [list(sa if g == 0 else sb) for g in split],
                              "w_in": rng.choice([None, {"f": "py", "v": 1.0}])})
            if cls in ("LIF", "LI") and rng.random() < 0.3:
                sa, sb = rng.sample([s2 for s2 in SHAPES], 2)
                k = len(NEURONS[cls])
                split = [rng.choice([0, 1]) for _ in range(k)]
                if 0 < sum(split) < k:
                    cases.append({"kind": "neuron", "cls": cls, "shapes": [list(sa if g == 0 else sb) for g in split], "w_in": None})
            if cls == "CubaLIF" and rng.random() < 0.6:
                # ONE parameter (each position in turn, v_threshold included) with a shape that broadcasts to the common one,
                # together with an explicit input weight of the full shape
                base2 = rng.choice([s2 for s2 in SHAPES if len(s2) >= 1])
                shapes2 = [list(base2) for _ in NEURONS[cls]]
                odd = rng.choice([[], [1], [1] * len(base2), list(base2[-1:]) if len(base2) > 1 else [1]])
                shapes2[rng.randrange(len(shapes2))] = odd
                cases.append({"kind": "neuron", "cls": cls, "shapes": shapes2,
                              "w_in": rng.choice([{"f": "arr", "shape": list(base2)}, {"f": "arr", "shape": list(base2)}, {"f": "arr", "shape": odd}])})
        elif r < 0.65:
            rank = rng.randrange(0, 6)
            cases.append({"kind": "linear", "cls": rng.choice(["Affine", "Linear"]),
                          "shape": [rng.randint(1, 4) for _ in range(rank)]})
        else:
            cases.append({"kind": "padding", "cls": rng.choice(["Conv1d", "Conv2d"]), "pad": rng.choice(PADS),
                          "with_shape": rng.random() < 0.6})
    return cases


def mat_pad(p):
    if isinstance(p, dict):
        if "b" in p:
            return p["b"].encode()
        if "npstr" in p:
            return np.str_(p["npstr"])
        return np.bytes_(p["npbytes"].encode())
    if isinstance(p, list):
        return tuple(p)
    return p


def recipe(c):
    if c["kind"] == "neuron":
        dt = c.get("dt", "float32")
        args = {p: np.ones(s, dtype=dt) for p, s in zip(NEURONS[c["cls"]], c["shapes"])}
        for i in c.get("npscalar", []):
            # a rank-0 parameter given as a numpy SCALAR object (arr.mean(), arr[0], np.float64(2.0)): its shape is ()
            pn = NEURONS[c["cls"]][i]
            if tuple(c["shapes"][i]) == ():
                args[pn] = np.dtype(dt).type(1)
        w = c["w_in"]
        if w is not None:
            if w["f"] == "py":
                args["w_in"] = float(w["v"])
            elif w["f"] == "pyint":
                args["w_in"] = int(w["v"])
            elif w["f"] == "np":
                args["w_in"] = np.float32(w["v"])
            elif w["f"] == "negzero":
                args["w_in"] = -0.0 if not w.get("arr") else np.array([-0.0] * (c["shapes"][0][-1] if c["shapes"][0] else 1))[:None if c["shapes"][0] else 0] if False else (np.full(c["shapes"][0][-1:], -0.0) if c["shapes"][0] else np.array(-0.0))
            elif w["f"] == "cplx":
                args["w_in"] = np.complex128(1.5 + 0.5j)
            elif w["f"] == "nested":
                def box(x):
                    return x if not isinstance(x, list) else (list if w["box"] == "list" else tuple)(box(y) for y in x)
                args["w_in"] = box(np.full(c["shapes"][0], 2.0).tolist())
            else:
                args["w_in"] = np.full(w["shape"], 2.0, dtype=w.get("dt", "float64"))
        return {"k": c["cls"], "args": args}
    if c["kind"] == "linear":
        args = {"weight": np.zeros(c["shape"], dtype="float32")}
        if c["cls"] == "Affine":
            args["bias"] = np.zeros(1, dtype="float32")
        return {"k": c["cls"], "args": args}
    one_d = c["cls"] == "Conv1d"
    w = np.zeros((2, 1, 3) if one_d else (2, 1, 3, 3), dtype="float32")
    ish = None
    if c["with_shape"]:
        ish = 9 if one_d else (9, 8)
    return {"k": c["cls"], "args": {"input_shape": ish, "weight": w, "stride": 1, "padding": mat_pad(c["pad"]),
                                    "dilation": 1, "groups": 1, "bias": np.zeros(2, dtype="float32")}}


def should_accept(c):
    """the right-hand sides of the property, evaluated independently"""
    if c["kind"] == "neuron":
        shapes = [tuple(s) for s in c["shapes"]]
        if len(set(shapes)) != 1:
            return False, None
        S = shapes[0]
        w = c["w_in"]
        if c["cls"] == "CubaLIF" and w is not None and w["f"] == "negzero" and w.get("arr") and len(S) == 0:
            return True, S
        if c["cls"] == "CubaLIF" and w is not None and w["f"] == "arr":
            try:
                if np.broadcast_shapes(S, tuple(w["shape"])) != S:
                    return False, S
            except ValueError:
                return False, S
        return True, S
    if c["kind"] == "linear":
        return len(c["shape"]) >= 2, None
    p = c["pad"]
    if isinstance(p, dict):
        if "npstr" in p:
            return p["npstr"] in ("same", "valid"), None
        return False, None          # bytes variants are never 'same'/'valid' text
    if isinstance(p, str):
        return p in ("same", "valid"), None
    return True, None


def run(c):
    r = recipe(c)
    res = try_build(r)
    coq = cbuild(r, res)
    if c["kind"] == "neuron" and c.get("w_in") and c["w_in"].get("f") == "nested":
        coq = None      # numpy's conversion of a Python sequence into the input weight is not in the model: oracle only
    want, S = should_accept(c)
    sig = repr(sorted(c.items(), key=lambda kv: kv[0]))
    nontriv = c["kind"] != "linear" or len(c["shape"]) != 2
    fail = None
    if want and res[0] != "ok":
        fail = f"{c['cls']} rejected a well-formed parameter set {c}: {res[1]}"
    elif not want and res[0] == "ok":
        fail = f"{c['cls']} accepted an ill-formed parameter set {c}"
    elif res[0] == "ok":
        n = res[1]
        if c["kind"] == "neuron":
            if tval(n.input_type, "input") != list(S) or tval(n.output_type, "output") != list(S):
                fail = f"{c['cls']} accepted but types are {n.input_type} / {n.output_type}, expected {list(S)}"
            elif c["cls"] == "CubaLIF" and (not isinstance(n.w_in, (np.ndarray, np.generic)) or np.shape(n.w_in) != S):
                fail = f"CubaLIF w_in not materialised to {S}: {getattr(n.w_in, 'shape', None)!r} ({c['w_in']})"
            elif c["cls"] == "CubaLIF" and c["w_in"] is not None and c["w_in"]["f"] == "negzero" and np.asarray(n.w_in).dtype.kind in "fc" \
                    and not np.all(np.signbit(np.asarray(n.w_in).real)):
                fail = f"CubaLIF materialised the input weight -0.0 as {np.asarray(n.w_in)!r} (the sign of zero is lost)"
        elif c["kind"] == "linear":
            if tval(n.input_type, "input") == "none" or tval(n.output_type, "output") == "none":
                fail = f"{c['cls']} accepted with undefined types"
        elif c["with_shape"]:
            if not isinstance(tval(n.input_type, "input"), list) or not isinstance(tval(n.output_type, "output"), list):
                fail = f"{c['cls']}(padding={c['pad']!r}) accepted with undefined/garbage types {n.input_type} {n.output_type}"
    return Outcome(coq, fail, nontriv, sig)
