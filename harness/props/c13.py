"""C13 — Dictionary form is a faithful, independent copy."""
import copy
import warnings
warnings.filterwarnings("ignore")
import dataclasses

import numpy as np

from .. import coqfmt as F
from .. import pyobs
from .. import sergen as S
from .. import values as V
from .common import Outcome, quiet, try_build
from .sercommon import compare_graphs, cops
from .c10 import digest
from .. import aliasobs

ID = "C13"
COQ_IMPORT = "Corr.C13"
COQ_CASE_TYPE = "c13_case"
COQ_CHECK = "c13_check"
EXPLAIN_UNWRAP = "c13_unwrap"
THEOREMS = ["c13_round_trip", "c13_round_trip_eq", "c13_leaf_round_trip", "c13_round_trip_twice", "c13_keys", "c13_fields_are_documented", "c13_fields_in_dict", "c13_dict_is_fresh", "c13_shares_nothing", "c13_dict_unaffected_by_graph_mutation", "c13_graph_unaffected_by_dict_mutation", "c13_two_dicts_independent", "c13_copy_keeps_content", "c13_allocator_above_graph", "c13_walk_is_ids"]
PROOF_FILES = ["Proofs/DictProofs.v", "Proofs/SerialProofs.v", "Proofs/MirrorClosedProofs.v", "Proofs/AliasProofs.v"]
RULE = ("the C01 graph generator plus graphs with undefined (None) annotations (Conv input_shape None, Flatten(None), "
        "Output(None), Input(None)) which only the dictionary form can carry; checks: from_dict(to_dict(g)) equivalent "
        "with identical Python value types; to_dict() contains only dict/str/number/tuple/list/ndarray under documented "
        "keys + 'type'; alias matrix between all mutable objects of g and of g.to_dict() (is / np.shares_memory) and "
        "mutate-and-compare in both directions on deep snapshots; plus object-identity cases (Model/Alias.v): the real graph is turned "
        "into an obj term (identities = first-occurrence numbers of id() / of the owner of each array's memory) and the sharing "
        "pattern observed on (g, g.to_dict()) and on two nir.read results of one file must equal the pattern the identity model "
        "computes (graphs with shared arrays, views and aliased nodes included). distinct = recipe; non-trivial = has metadata, "
        "a nested graph or an undefined annotation")
ASSUMPTIONS = ["'the graph' is g itself: from_dict consuming (mutating) the dictionary it is given is not part of the claim"]


def with_nones(rng):
    nodes = {}
    w = np.ones((2, 1, 3), dtype="float32")
    choices = [
        ("c1", {"k": "Conv1d", "args": {"input_shape": None, "weight": w, "stride": 1, "padding": 0, "dilation": 1, "groups": 1, "bias": np.ones(2, dtype="float32")}}),
        ("c2", {"k": "Conv2d", "args": {"input_shape": None, "weight": np.ones((2, 1, 3, 3), dtype="float32"), "stride": (1, 2), "padding": "same", "dilation": 1, "groups": 1, "bias": np.ones(2, dtype="float32")}}),
        ("fl", {"k": "Flatten", "args": {"input_type": None, "start_dim": 0}}),
        ("out", {"k": "Output", "args": {"output_type": None, "metadata": {"m": np.arange(3)}}}),
        ("in", {"k": "Input", "args": {"input_type": None}}),
        ("pool", {"k": "SumPool2d", "args": {"kernel_size": np.array([2, 2]), "stride": np.array([2, 2]), "padding": np.array([0, 0])}}),
    ]
    rng.shuffle(choices)
    for nm, r in choices[:rng.randint(1, 5)]:
        nodes[nm] = r
    if rng.random() < 0.5:
        nodes["leaf"] = S.rand_leaf(rng)
    ks = list(nodes)
    return {"k": "NIRGraph", "nodes": nodes, "edges": [(rng.choice(ks), rng.choice(ks)) for _ in range(rng.randint(0, 4))]}


def gen(rng, tier):
    N = 170 if tier == "quick" else 2000
    cases = []
    for _ in range(N):
        if rng.random() < 0.3:
            r = with_nones(rng)
        else:
            r = S.serial_graph(rng, depth=rng.choice([0, 1, 2]), max_nodes=rng.choice([2, 4, 6]), shared=rng.random() < 0.3)
        cases.append({"kind": "graph", "recipe": V.enc_recipe(r)})
    # object-identity cases (Model/Alias.v): sharing pattern of g and g.to_dict(); two separate reads of one file
    for i in range(N // 2):
        if rng.random() < 0.25:
            r = with_nones(rng)
        else:
            r = S.serial_graph(rng, depth=rng.choice([0, 1, 2]), max_nodes=rng.choice([2, 4, 6]), shared=rng.random() < 0.5)
        cases.append({"kind": "alias" if i % 3 else "reads", "recipe": V.enc_recipe(r)})
    return cases


def mutables(x, acc, path="", seen=None):
    """collect (path, object) for every mutable object reachable from a dict / node structure"""
    if isinstance(x, np.ndarray):
        acc.append((path, x))
    elif isinstance(x, dict):
        acc.append((path, x))
        for k, v in x.items():
            mutables(v, acc, f"{path}/{k}")
    elif isinstance(x, (list, tuple)):
        if isinstance(x, list):
            acc.append((path, x))
        for i, v in enumerate(x):
            mutables(v, acc, f"{path}[{i}]")
    elif dataclasses.is_dataclass(x) and not isinstance(x, type):
        acc.append((path, x))
        for f in dataclasses.fields(x):
            mutables(getattr(x, f.name), acc, f"{path}.{f.name}")


def shares(a, b):
    if a is b:
        return True
    if isinstance(a, np.ndarray) and isinstance(b, np.ndarray):
        return a.size > 0 and b.size > 0 and np.shares_memory(a, b)
    return False


def plain(x, path="d"):
    if x is None or isinstance(x, (str, bytes, bool, int, float, np.generic)):
        return None
    if isinstance(x, np.ndarray):
        return None if x.dtype.kind != "O" else f"{path}: object array {x!r}"
    if isinstance(x, dict):
        for k, v in x.items():
            if not isinstance(k, str):
                return f"{path}: non-string key {k!r}"
            d = plain(v, f"{path}/{k}")
            if d:
                return d
        return None
    if isinstance(x, (tuple, list)):
        for i, v in enumerate(x):
            d = plain(v, f"{path}[{i}]")
            if d:
                return d
        return None
    return f"{path}: {type(x).__name__} is not a plain value"


def keys_ok(d, node, path="d"):
    cls = type(node).__name__
    allowed = {f.name for f in dataclasses.fields(node)} - {"input_type", "output_type"} | {"type"}
    if cls in ("Input", "Output"):
        allowed |= {"shape"}
    if cls == "Flatten":
        allowed |= {"input_type"}
    if set(d.keys()) != allowed:
        return f"{path}: keys {sorted(d.keys())} != documented fields + 'type' {sorted(allowed)}"
    if d["type"] != cls:
        return f"{path}: 'type' is {d['type']!r}"
    if cls == "NIRGraph":
        for k, c in node.nodes.items():
            r = keys_ok(d["nodes"][k], c, f"{path}/nodes/{k}")
            if r:
                return r
    return None


def state(g):
    out = []
    acc = []
    mutables(g, acc)
    return [(p, digest(o) if not dataclasses.is_dataclass(o) else id(o)) for p, o in acc]


def dstate(d):
    return digest_plain(d)


def digest_plain(x):
    if isinstance(x, dict):
        return ("dict", tuple((k, digest_plain(v)) for k, v in x.items()))
    if isinstance(x, (list, tuple)):
        return (type(x).__name__, tuple(digest_plain(v) for v in x))
    return digest(x)


def poke(obj):
    """mutate a mutable object in place; returns False if nothing could be changed"""
    if isinstance(obj, np.ndarray):
        if obj.size == 0 or not obj.flags.writeable:
            return False
        flat = obj.reshape(-1) if obj.flags.c_contiguous else None
        try:
            v = obj.view(np.uint8) if obj.flags.c_contiguous and obj.dtype.kind != "O" and obj.ndim > 0 else None
        except Exception:
            v = None
        if v is not None and v.size:
            v.reshape(-1)[0] ^= 0x01
            return True
        idx = tuple(0 for _ in range(obj.ndim))
        try:
            if obj.dtype.kind == "b":
                obj[idx] = not obj[idx]
            else:
                obj[idx] = obj[idx] + 1 if obj.dtype.kind in "iuf" and np.isfinite(obj[idx]) else 1
            return True
        except Exception:
            return False
    if isinstance(obj, dict):
        obj["__poked__"] = 1
        return True
    if isinstance(obj, list):
        obj.append("__poked__")
        return True
    return False


def cross_shared(xa, xb, what):
    """independent oracle: no mutable object of xa is, or views the memory of, a mutable object of xb"""
    ma, mb = [], []
    mutables(xa, ma, "a")
    mutables(xb, mb, "b")
    for pa, oa in ma:
        for pb, ob in mb:
            if shares(oa, ob):
                return f"{what}: {pb} aliases {pa}"
    return None


def run_alias(g, nontriv, sig):
    """the sharing pattern of (g, g.to_dict()) against the identity model"""
    try:
        with quiet():
            d = g.to_dict()
    except BaseException:  # noqa: BLE001
        return Outcome(None, None, False, ("alias",) + (sig,))
    term = aliasobs.alias_case(g, d)
    fail = cross_shared(g, d, "to_dict() output shares mutable state with the graph")
    if not fail:
        # no two positions of the dictionary share a mutable object either (asdict copies per position)
        md = []
        mutables(d, md, "d")
        for i in range(len(md)):
            for j in range(i + 1, len(md)):
                if shares(md[i][1], md[j][1]) and not fail:
                    fail = f"two positions of the dictionary share mutable state: {md[i][0]} and {md[j][0]}"
    return Outcome(term, fail, nontriv, ("alias",) + (sig,))


def run_reads(g, nontriv, sig):
    """two separate nir.read calls on one file: same internal sharing, nothing in common"""
    import io
    import nir
    buf = io.BytesIO()
    try:
        with quiet():
            nir.write(buf, g)
    except BaseException:  # noqa: BLE001
        return Outcome(None, None, False, ("reads",) + (sig,))
    try:
        with quiet():
            a = nir.read(buf)
            b = nir.read(buf)
    except BaseException as e:  # noqa: BLE001
        return Outcome(None, f"nir.read of a file nir.write produced raised {type(e).__name__}: {e}", nontriv, ("reads",) + (sig,))
    term = aliasobs.reads_case(a, b)
    fail = cross_shared(a, b, "two separate nir.read results share mutable state")
    return Outcome(term, fail, nontriv, ("reads",) + (sig,))


def run(c):
    import nir
    r = V.dec_recipe(c["recipe"])
    b = try_build(r)
    sig = repr(c["recipe"])
    if b[0] != "ok":
        return Outcome(None, None, False, sig)
    g = b[1]
    nontriv = "metadata" in r or any(x["k"] == "NIRGraph" or any(v is None for v in x.get("args", {}).values()) for x in r["nodes"].values())
    if c.get("kind") == "alias":
        return run_alias(g, nontriv, sig)
    if c.get("kind") == "reads":
        return run_reads(g, nontriv, sig)
    try:
        with quiet():
            d = g.to_dict()
    except BaseException as e:  # noqa: BLE001
        return Outcome(f"(C13G (CToDict {pyobs.nexpr(r)} (Err OtherError)))", f"to_dict() raised {type(e).__name__}: {e}", nontriv, sig)
    coq1 = f"(C13G (CToDict {pyobs.nexpr(r)} (Ok {F.pval(d)})))" if plain(d) is None else None
    fail = plain(d) or keys_ok(d, g)
    g2 = None
    if not fail:
        try:
            with quiet():
                g2 = nir.NIRGraph.from_dict(g.to_dict())
        except BaseException as e:  # noqa: BLE001
            fail = f"from_dict(to_dict(g)) raised {type(e).__name__}: {e}"
    if not fail:
        fail = compare_graphs(g, g2, r, strict_types=True)
        if fail:
            fail = "from_dict(to_dict(g)): " + fail
    if not fail:
        # alias matrix
        mg, md = [], []
        mutables(g, mg, "g")
        mutables(d, md, "d")
        for pg, og in mg:
            for pd, od in md:
                if not dataclasses.is_dataclass(og) and shares(og, od):
                    fail = f"to_dict() output shares mutable state with the graph: {pd} aliases {pg}"
                    break
            if fail:
                break
    if not fail:
        # mutate the dictionary, the graph must not change; then the other way round
        before = state(g)
        dd = g.to_dict()
        acc = []
        mutables(dd, acc, "d")
        for _, o in acc:
            poke(o)
        if state(g) != before:
            fail = "changing the dictionary returned by to_dict() changed the graph"
        else:
            d3 = g.to_dict()
            snap = dstate(d3)
            acc = []
            mutables(g, acc, "g")
            g_copy_ok = True
            for _, o in acc:
                if not dataclasses.is_dataclass(o):
                    poke(o)
            if dstate(d3) != snap:
                fail = "changing the graph changed a dictionary returned earlier by to_dict()"
    coq = coq1
    return Outcome(coq, fail, nontriv, sig)
