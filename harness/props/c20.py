"""C20 — Reference simulators implement the documented neuron dynamics."""
import math
import os
import subprocess
import sys
import types
from fractions import Fraction

import numpy as np

from .. import gen_evloop, gen_lif
from ..driver import BUILD, COQ, ROOT, Infra
from .common import Outcome, quiet

ID = "C20"
COQ_IMPORT = "Corr.C20"
COQ_CASE_TYPE = "c20_case"
COQ_CHECK = "c20_check"
GENERATORS = [gen_lif.main, gen_evloop.main]
THEOREMS = ["c20_zero", "c20_semigroup", "c20_ode", "c20_limit", "c20_spike_time", "c20_no_spike", "c20_reset",
            "c20_record_step_partial", "c20_cuba_euler", "c20_spikes_independent_of_record_dt",
            "c20_voltages_independent_of_record_dt", "c20_laws_hold_for_if_neuron",
            "c20_lif_spikes_independent_of_record_dt", "c20_lif_voltages_independent_of_record_dt", "c20_lif_run_defined"]
PROOF_FILES = ["Proofs/LifProofs.v", "Proofs/EventLoopProofs.v", "Proofs/EventLoopRProofs.v", "Proofs/LifLoopProofs.v"]
TRUSTED_LOOP = "Model/EventLoop.v: hand-written model of run_event_based_simulation, tied by exact event-by-event correspondence"
TRUSTED = ["harness/gen_evloop.py: mechanical port of Section Loop of Model/EventLoop.v from Q to R (Gen/EventLoopR.v, regenerated "
           "every run, fail-closed on any rational operation it does not know); the LIF loop theorems are about that port",
           "harness/gen_lif.py: fail-closed Python-AST -> Coq(R) translator of advance_by_delta_t, calc_next_spike_time, "
           "apply_reset and CubaLIFImplementation.forward (the theorems are about the translated terms)",
           "Coquelicot (is_derive, is_lim) and Interval (numeric validation of sampled float results against the R terms)"]
RULE = ("parameter sets tau in (1e-3, 1), R in [-3,3], v_leak in [-1,1] (mostly != 0), v_threshold > v_leak, initial voltage "
        "below threshold, step-current schedules of 1..5 levels, durations and recording intervals; checks on the REAL "
        "code: advance(0) = identity, two steps = one step by the sum, relaxation to v_leak + R I, predicted spike time vs "
        "an independent RK4 integration with event detection, spike list and voltages at common record times independent "
        "of record_dt; CubaLIF.forward vs an independent per-element Python Euler loop (incl. exact-threshold cases); "
        "each sampled float result of advance/next_spike is additionally proved to lie within 1e-9 (relative) of the "
        "translated real-valued term by the `interval` tactic. distinct = parameter tuple; non-trivial = v_leak != 0 or "
        "R != 1")
ASSUMPTIONS = ["floating-point rounding of the shipped scripts is not modelled: theorems are about exact reals; float "
               "results are compared with tolerances scaled to the magnitudes",
               "the event loop is modelled generically (Model/EventLoop.v over Q, tied to the real loop by an exact "
               "event-by-event correspondence on dyadic data); the theorems about the LIF neuron are about its mechanical "
               "port to R instantiated with the translated closed forms"]


def load_lif():
    if "matplotlib" not in sys.modules:
        m = types.ModuleType("matplotlib")
        mp = types.ModuleType("matplotlib.pyplot")
        m.pyplot = mp
        sys.modules["matplotlib"] = m
        sys.modules["matplotlib.pyplot"] = mp
    import importlib.util
    spec = importlib.util.spec_from_file_location("lif_exact_sim_under_test", gen_lif.LIF_SRC)
    mod = importlib.util.module_from_spec(spec)
    spec.loader.exec_module(mod)
    return mod


def load_cuba():
    import importlib.util
    spec = importlib.util.spec_from_file_location("cuba_ref_under_test", gen_lif.CUBA_SRC)
    mod = importlib.util.module_from_spec(spec)
    spec.loader.exec_module(mod)
    return mod


def gen(rng, tier):
    cases = []
    N = 140 if tier == "quick" else 2000
    for _ in range(N):
        tau = rng.choice([0.001, 0.01, 0.02, 0.1, 0.5]) * rng.uniform(0.5, 2)
        r = rng.choice([1.0, 1.0, 2.0, 0.5, -1.0, 3.0])
        v_leak = rng.choice([0.0, 0.3, -0.4, 0.25, -1.0, 0.7]) if rng.random() < 0.85 else 0.0
        thr = v_leak + rng.choice([0.2, 0.5, 1.0, 2.0])
        v0 = thr - rng.choice([0.05, 0.3, 1.0, 2.5])
        i = rng.choice([0.0, 0.1, 0.5, 1.05, 2.0, -1.0, 3.0]) * (1 if r >= 0 else -1)
        cases.append({"kind": "lif", "tau": tau, "r": r, "v_leak": v_leak, "thr": thr, "v0": v0, "i": i,
                      "a": rng.uniform(0, 3) * tau, "b": rng.uniform(0, 3) * tau})
    M = 40 if tier == "quick" else 400
    for _ in range(M):
        tau = rng.choice([0.001, 0.005, 0.02]) * rng.uniform(0.8, 1.5)
        v_leak = rng.choice([0.0, 0.2, -0.3])
        n = rng.randint(1, 5)
        times = sorted(rng.uniform(0, 0.08) for _ in range(n))
        if rng.random() < 0.5:
            times[0] = 0.0
        if n >= 2 and rng.random() < 0.35:       # two entries at the same instant: the later one holds
            j = rng.randrange(1, n)
            times[j] = times[j - 1]
        cases.append({"kind": "loop", "sched": rng.choice(["list", "list", "array", "tuple"]), "tau": tau, "r": rng.choice([1.0, 2.0, 0.5]), "v_leak": v_leak,
                      "thr": v_leak + rng.choice([0.5, 1.0]), "times": times,
                      "amps": [rng.choice([0.0, 0.3, 0.8, 1.05, 1.5, 2.5]) for _ in range(n)],
                      "dt": rng.choice([1e-3, 2e-3, 5e-3]), "k": rng.choice([2, 3, 5]), "duration": rng.choice([0.05, 0.1])})
    # recording grids that COINCIDE with the analytic spike times (constant drive: spikes at multiples of t*; record_dt = t*/m):
    # a recording instant then falls within an ulp of a threshold crossing
    grid = [(0.01, 1.0, 0.1, 1.0, 3.27, 1)]
    for _ in range(150 if tier == "quick" else 1500):
        tau = rng.choice([0.01, 0.02, 0.005, rng.uniform(0.004, 0.05)])
        r = rng.choice([1.0, 2.0, 0.5])
        v_leak = rng.choice([0.0, 0.1, -0.2, 0.25])
        thr = v_leak + rng.choice([0.5, 1.0, 0.9])
        i = (thr - v_leak) / r * rng.uniform(1.2, 4.0) + rng.choice([0.0, 0.07])
        grid.append((tau, r, v_leak, thr, i, rng.choice([1, 1, 2, 3, 4, 7])))
    for tau, r, v_leak, thr, i, m in grid:
        vinf = v_leak + r * i
        if vinf <= thr * 1.01 or vinf <= 0:
            continue
        tstar = tau * math.log(vinf / (vinf - thr))        # first crossing from v = 0; after the reset v = thr - thr = 0 again
        cases.append({"kind": "loop", "tau": tau, "r": r, "v_leak": v_leak, "thr": thr, "times": [0.0], "amps": [i],
                      "dt": tstar / m, "k": rng.choice([2, 3, 5]), "duration": tstar * rng.choice([4.5, 6.5, 9.5])})
    # the REAL event loop run on an integrate-and-fire neuron with dyadic-rational data (every float operation exact),
    # compared event by event with the Coq model of the loop (Model/EventLoop.v)
    E = 60 if tier == "quick" else 800
    for _ in range(E):
        n = rng.randint(1, 5)
        times = sorted(rng.randrange(0, 64) / 16 for _ in range(n))       # multiples of 1/16
        if rng.random() < 0.4:
            times[0] = 0.0
        if n >= 2 and rng.random() < 0.3:
            j = rng.randrange(1, n); times[j] = times[j - 1]
        r = rng.choice([0.5, 1.0, 2.0])
        amps = [rng.choice([0.0, 0.5, 1.0, 2.0, 4.0, -1.0]) for _ in range(n)]     # r * amp is 0 or a power of two
        cases.append({"kind": "evloop", "r": r, "thr": rng.choice([1.0, 2.0, 0.5, 4.0]), "times": times, "amps": amps,
                      "dt": rng.choice([0.25, 0.5, 1.0, 0.125, 0.75]), "duration": rng.choice([2.0, 4.0, 3.5, 1.0])})
    K = 40 if tier == "quick" else 400
    for _ in range(K):
        n = rng.randint(1, 4)
        exact = rng.random() < 0.3
        cases.append({"kind": "cuba", "n": n, "steps": rng.randint(3, 60), "exact": exact, "seed": rng.randrange(2 ** 30)})
    return cases


def rk4_first_crossing(p, v, i, tmax, h):
    """independent integration of tau dv/dt = (v_leak - v) + R I with detection of v >= thr"""
    f = lambda x: ((p["v_leak"] - x) + p["r"] * i) / p["tau"]
    t = 0.0
    while t < tmax:
        k1 = f(v); k2 = f(v + h * k1 / 2); k3 = f(v + h * k2 / 2); k4 = f(v + h * k3)
        v2 = v + h * (k1 + 2 * k2 + 2 * k3 + k4) / 6
        if v2 >= p["thr"]:
            # linear interpolation inside the step
            return t + h * (p["thr"] - v) / (v2 - v) if v2 != v else t
        v, t = v2, t + h
    return math.inf


class FloatIF(object):
    """integrate-and-fire neuron dv/dt = R I with the three methods the event loop calls (duck typing); with
    dyadic-rational data all its float operations are exact (mirrors Model/EventLoop.v: if_advance/if_next/if_reset)"""

    class _State(object):
        def __init__(self):
            self.v = 0.0

    def __init__(self, r, thr):
        self.r, self.thr = r, thr
        self.state = FloatIF._State()

    def advance_by_delta_t(self, i_input, delta_t):
        self.state.v = self.state.v + self.r * i_input * delta_t

    def apply_reset(self):
        self.state.v = self.state.v - self.thr

    def calc_next_spike_time(self, i_input):
        drive = self.r * i_input
        if drive <= 0:
            return math.inf
        t = (self.thr - self.state.v) / drive
        return t if t >= 0 else math.inf


def qq(x):
    fr = Fraction(x)
    return f"({fr.numerator} # {fr.denominator})"


def run_evloop(c):
    L = load_lif()
    n = FloatIF(c["r"], c["thr"])
    try:
        with quiet():
            rec = L.run_event_based_simulation(n, L.StepCurrent(list(c["times"]), list(c["amps"])), c["dt"], c["duration"])
    except BaseException as e:  # noqa: BLE001
        return Outcome(None, f"run_event_based_simulation raised {type(e).__name__}: {e} on {c}", True, repr(c))
    volts = "[" + "; ".join(f"({qq(t)}, {qq(v)})" for t, v in zip(rec.times, rec.voltages)) + "]"
    spikes = "[" + "; ".join(qq(t) for t in rec.spikes) + "]"
    ql = lambda l: "[" + "; ".join(qq(x) for x in l) + "]"
    coq = (f"(LoopCase {qq(c['r'])} {qq(c['thr'])} {ql(c['times'])} {ql(c['amps'])} {qq(c['dt'])} {qq(c['duration'])} "
           f"{volts} {spikes})")
    # oracle: an independent exact integration of dv/dt = R I(t) with reset by subtraction (Fractions)
    fail = None
    v, t0, spk = Fraction(0), Fraction(0), []
    bps = sorted(set([Fraction(0), Fraction(c["duration"])] + [Fraction(t) for t in c["times"] if 0 <= t <= c["duration"]]))
    for a, b in zip(bps, bps[1:]):
        cur = Fraction(0)
        for t, amp in zip(c["times"], c["amps"]):
            if Fraction(t) <= a:
                cur = Fraction(amp)
        drive = Fraction(c["r"]) * cur
        t0 = a
        while drive > 0:
            tc = t0 + (Fraction(c["thr"]) - v) / drive
            if tc <= b and len(spk) < 10000:
                spk.append(tc); v = Fraction(0) + (v + drive * (tc - t0) - Fraction(c["thr"])); t0 = tc
            else:
                break
        v = v + drive * (b - t0)
    got = [Fraction(t) for t in rec.spikes if Fraction(t) < Fraction(c["duration"])]
    ref = [t for t in spk if t < Fraction(c["duration"])]
    # a spike that coincides with an input change is handled before the change (documented priority); the reference
    # integrates up to the change with the old current as well, so the two must agree exactly
    if got != ref:
        fail = (f"spike times of the event loop {[float(x) for x in got[:6]]} ({len(got)}) differ from the exact integration "
                f"{[float(x) for x in ref[:6]]} ({len(ref)}) for {c}")
    return Outcome(coq, fail, True, ("evloop",) + tuple(sorted((k, str(v2)) for k, v2 in c.items())))


def run(c):
    if c["kind"] == "evloop":
        return run_evloop(c)
    if c["kind"] == "lif":
        return run_lif(c)
    if c["kind"] == "loop":
        return run_loop(c)
    return run_cuba(c)


def run_lif(c):
    L = load_lif()
    p = {k: c[k] for k in ("tau", "r", "v_leak", "thr")}
    mk = lambda v: _neuron(L, p, v)
    scale = max(1.0, abs(c["v0"]), abs(c["v_leak"]) + abs(c["r"] * c["i"]), abs(c["thr"]))
    tol = 1e-9 * scale
    fail = None
    n = mk(c["v0"]); n.advance_by_delta_t(c["i"], 0.0)
    if abs(n.state.v - c["v0"]) > tol:
        fail = f"advance by zero time changed the voltage: {c['v0']} -> {n.state.v} ({p}, I={c['i']})"
    n1 = mk(c["v0"]); n1.advance_by_delta_t(c["i"], c["a"]); va = n1.state.v; n1.advance_by_delta_t(c["i"], c["b"])
    n2 = mk(c["v0"]); n2.advance_by_delta_t(c["i"], c["a"] + c["b"])
    if not fail and abs(n1.state.v - n2.state.v) > 1e-7 * scale:
        fail = f"advancing by {c['a']} then {c['b']} gives {n1.state.v}, advancing once by the sum gives {n2.state.v} ({p}, I={c['i']})"
    n3 = mk(c["v0"]); n3.advance_by_delta_t(c["i"], 60 * c["tau"])
    vinf = c["v_leak"] + c["r"] * c["i"]
    if not fail and abs(n3.state.v - vinf) > 1e-6 * scale:
        fail = f"after 60 tau the membrane is at {n3.state.v}, it must relax to v_leak + R*I = {vinf} ({p}, I={c['i']})"
    n4 = mk(c["v0"])
    ts = n4.calc_next_spike_time(c["i"])
    tref = rk4_first_crossing({**p}, c["v0"], c["i"], 40 * c["tau"], c["tau"] / 4000)
    degenerate = abs(vinf - c["thr"]) < 1e-6 * scale     # asymptote exactly at the threshold: float rounding decides
    if not fail and not degenerate:
        if math.isinf(tref) != math.isinf(ts):
            fail = f"predicted spike time {ts}, an RK4 integration crosses the threshold at {tref} ({p}, v={c['v0']}, I={c['i']})"
        elif not math.isinf(ts):
            if abs(ts - tref) > 2e-3 * c["tau"] + 1e-3 * abs(tref):
                fail = f"predicted spike time {ts}, RK4 threshold crossing at {tref} ({p}, v={c['v0']}, I={c['i']})"
            else:
                n5 = mk(c["v0"]); n5.advance_by_delta_t(c["i"], ts)
                if abs(n5.state.v - c["thr"]) > 1e-7 * scale:
                    fail = f"voltage at the predicted spike time is {n5.state.v}, threshold {c['thr']} ({p})"
    # cancellation-dominated inputs (asymptote within 1e-3 of the threshold or of the start voltage) are not used
    # for the float-vs-real validation: there the float result legitimately differs from the exact-real value
    cancel = abs(vinf - c["thr"]) < 1e-3 * scale or abs(c["v0"] - vinf) < 1e-3 * scale
    samples = {"adv": (c["v0"], c["i"], c["a"], va), "spk": (c["v0"], c["i"], math.inf if cancel else ts)}
    return Outcome(None, fail, c["v_leak"] != 0 or c["r"] != 1.0, ("lif",) + tuple(sorted(c.items())), info={"p": p, "samples": samples})


def _neuron(L, p, v):
    n = L.ExactLIFNeuron(L.LIFParams(tau=p["tau"], r=p["r"], v_leak=p["v_leak"], v_threshold=p["thr"]))
    n.state.v = v
    return n


def reference_spikes(p, times, amps, duration):
    """independent event-driven integration of tau dv/dt = (v_leak - v) + R I(t) with reset by subtraction, where
    I(t) is the amplitude of the LAST schedule entry with time <= t (0 before the first entry)"""
    bps = sorted(set([0.0, duration] + [t for t in times if 0.0 <= t <= duration]))
    v, spikes = 0.0, []
    for a, b in zip(bps, bps[1:]):
        cur = 0.0
        for t, amp in zip(times, amps):
            if t <= a:
                cur = amp
        vinf = p["v_leak"] + p["r"] * cur
        t0 = a
        while True:
            if vinf > p["thr"] and v < p["thr"]:
                tc = t0 + p["tau"] * math.log((vinf - v) / (vinf - p["thr"]))
            else:
                tc = math.inf
            if tc <= b:
                spikes.append(tc)
                v = p["thr"] - p["thr"]           # at the crossing v == thr; reset by subtraction
                t0 = tc
                if len(spikes) > 100000:
                    break
            else:
                v = vinf + (v - vinf) * math.exp(-(b - t0) / p["tau"])
                break
    return spikes


def run_loop(c):
    L = load_lif()
    p = {k: c[k] for k in ("tau", "r", "v_leak", "thr")}
    def sim(dt):
        n = _neuron(L, p, 0.0)
        with quiet():
            tm, am = list(c["times"]), list(c["amps"])
            form = c.get("sched", "list")
            if form == "array":                 # the schedule given as numpy arrays
                tm, am = np.array(tm, dtype=float), np.array(am, dtype=float)
            elif form == "tuple":
                tm, am = tuple(tm), tuple(am)
            return L.run_event_based_simulation(n, L.StepCurrent(tm, am), dt, c["duration"])
    try:
        a, b = sim(c["dt"]), sim(c["dt"] / c["k"])
    except Exception as ex:  # noqa: BLE001
        return Outcome(None, f"run_event_based_simulation raised {type(ex).__name__}: {ex} for a valid schedule given as {c.get('sched', 'list')} "
                             f"({p}, schedule {c['times']} {c['amps']})", True, ("loop",) + tuple(sorted((k, str(v)) for k, v in c.items())))
    fail = None
    sa = [t for t in a.spikes if t <= c["duration"]]
    sb = [t for t in b.spikes if t <= c["duration"]]
    if len(sa) != len(sb) or any(abs(x - y) > 1e-9 + 1e-7 * abs(x) for x, y in zip(sa, sb)):
        fail = (f"spike times depend on the recording interval: record_dt={c['dt']} -> {sa[:6]}..., "
                f"record_dt={c['dt'] / c['k']} -> {sb[:6]}... ({p}, schedule {c['times']} {c['amps']})")
    if not fail:
        ref = [t for t in reference_spikes(p, c["times"], c["amps"], c["duration"]) if t < c["duration"] * (1 - 1e-9)]
        sa2 = [t for t in sa if t < c["duration"] * (1 - 1e-9)]
        if len(ref) != len(sa2) or any(abs(x - y) > 1e-9 + 1e-6 * abs(y) for x, y in zip(sa2, ref)):
            fail = (f"spike times differ from an independent integration of the LIF equation: simulator {sa2[:5]}... "
                    f"({len(sa2)} spikes), reference {ref[:5]}... ({len(ref)} spikes) ({p}, schedule {c['times']} {c['amps']})")
    if not fail:
        vb = {round(t / (c["dt"] / c["k"])): v for t, v in zip(b.times, b.voltages)}
        for t, v in zip(a.times, a.voltages):
            if t > c["duration"]:
                break
            key = round(t / (c["dt"] / c["k"]))
            if any(abs(t - sp) <= 1e-9 * max(abs(sp), 1e-6) for sp in list(a.spikes) + list(b.spikes)):
                continue      # a record within rounding distance of a spike: which side of the reset it sees is decided by an ulp
            if key in vb and abs(vb[key] - v) > 1e-6 * max(1.0, abs(v)):
                fail = (f"recorded voltage at t={t} depends on the recording interval: {v} vs {vb[key]} "
                        f"({p}, schedule {c['times']} {c['amps']})")
                break
    return Outcome(None, fail, True, ("loop",) + tuple(sorted((k, str(v)) for k, v in c.items())))


def run_cuba(c):
    import nir
    C = load_cuba()
    rs = np.random.RandomState(c["seed"] % (2 ** 31))
    n = c["n"]
    if c["exact"]:
        dt = 1.0
        node = nir.CubaLIF(tau_syn=np.full(n, 1.0), tau_mem=np.full(n, 2.0), r=np.full(n, 1.0), v_leak=np.zeros(n),
                           v_threshold=np.full(n, 1.0), w_in=np.full(n, 2.0))
        x = rs.randint(0, 2, size=(c["steps"], n)).astype(float)
        x[0, :] = 1.0     # step 2 then lands EXACTLY on the threshold: 0 + (1/2) * (1 * 2) = 1.0 (no spike: v > thr is strict)
    else:
        dt = float(rs.choice([1e-4, 1e-3, 0.5]))
        node = nir.CubaLIF(tau_syn=rs.uniform(0.5, 5, n) * dt * 4, tau_mem=rs.uniform(0.5, 5, n) * dt * 4,
                           r=rs.uniform(0.5, 3, n), v_leak=rs.uniform(-0.5, 0.5, n), v_threshold=rs.uniform(0.6, 1.5, n),
                           w_in=rs.uniform(0.5, 4, n))
        x = (rs.uniform(0, 1, size=(c["steps"], n)) < 0.4).astype(float) * rs.uniform(0.5, 2)
    if not c["exact"] and c["seed"] % 4 == 0:
        # the state buffers are allocated like v_threshold: a narrower threshold dtype must not narrow the arithmetic
        node.v_threshold = node.v_threshold.astype(np.float32)
    impl = C.CubaLIFImplementation(dt, node)
    with quiet():
        out = C.run_cuba_reference_model(impl, x)
        # ... and the same run through forward() directly, KEEPING the returned arrays (no copies): what forward returned for
        # step t must still be the state of step t after later steps
        impl2 = C.CubaLIFImplementation(dt, node)
        kept = [impl2.forward(x[t]) for t in range(c["steps"])]
    if c["steps"] >= 6:
        # one model object used for two consecutive stretches through the runner, and advanced by forward() before being handed
        # to the runner: the state carries over (the trajectory is that of the single long run)
        cut = c["steps"] // 3
        with quiet():
            impl3 = C.CubaLIFImplementation(dt, node)
            o1 = C.run_cuba_reference_model(impl3, x[:cut])
            o2 = C.run_cuba_reference_model(impl3, x[cut:])
            impl4 = C.CubaLIFImplementation(dt, node)
            for t in range(cut):
                impl4.forward(x[t])
            o3 = C.run_cuba_reference_model(impl4, x[cut:])
        for name, first, second in (("two runs of the reference runner on one model object", o1, o2), ("forward() calls followed by the runner", None, o3)):
            for key in ("spikes", "voltages", "currents"):
                got = second[key] if first is None else np.concatenate([first[key], second[key]])
                want = out[key][cut:] if first is None else out[key]
                if got.shape != want.shape or not np.array_equal(got, want):
                    return Outcome(None, f"CubaLIF reference model: {name} ({cut} + {c['steps'] - cut} steps) does not continue the trajectory of the "
                                         f"single {c['steps']}-step run ({key} differ; dt={dt}, n={n})", True,
                                   ("cuba", c["n"], c["steps"], c["exact"], c["seed"]))
    for t, (z, v, cur) in enumerate(kept):
        if not (np.array_equal(np.asarray(z, dtype=float), out["spikes"][t]) and np.array_equal(np.asarray(v, dtype=float), out["voltages"][t])
                and np.array_equal(np.asarray(cur, dtype=float), out["currents"][t])):
            return Outcome(None, f"CubaLIF reference model: the arrays forward() returned for step {t} no longer hold the state of "
                                 f"step {t} after {c['steps'] - 1 - t} further steps (dt={dt}, n={n})", True,
                           ("cuba", c["n"], c["steps"], c["exact"], c["seed"]))
    # independent per-element forward Euler of the documented equations
    fail = None
    for j in range(n):
        I = 0.0; v = 0.0
        ts, tm, R, vl, th, w = (float(a[j]) for a in (node.tau_syn, node.tau_mem, node.r, node.v_leak, node.v_threshold, node.w_in))
        for t in range(c["steps"]):
            I_new = I + dt * ((-I + w * x[t, j]) / ts)
            v_new = v + dt * ((vl - v + R * I) / tm)
            z = 1.0 if v_new > th else 0.0
            if z:
                v_new = v_new - th
            I, v = I_new, v_new
            got = (out["spikes"][t, j], out["voltages"][t, j], out["currents"][t, j])
            if got[0] != z or abs(got[1] - v) > 1e-9 * max(1, abs(v)) or abs(got[2] - I) > 1e-9 * max(1, abs(I)):
                fail = (f"CubaLIF reference model deviates from forward Euler at step {t}, element {j}: got (z,v,I)={got}, "
                        f"Euler gives ({z},{v},{I}) (dt={dt}, exact-threshold case={c['exact']})")
                break
        if fail:
            break
    return Outcome(None, fail, True, ("cuba", c["n"], c["steps"], c["exact"], c["seed"]))


def q(x):
    fr = Fraction(x)
    return f"({fr.numerator} / {fr.denominator})" if fr.denominator != 1 else (f"({fr.numerator})" if fr.numerator < 0 else str(fr.numerator))


def extra_coq(cases, outcomes, proof_ok):
    """each sampled float result of advance / next_spike lies within 1e-9 (relative) of the translated R term"""
    goals = []
    for c, o in zip(cases, outcomes):
        if c.get("kind") != "lif" or not o.info:
            continue
        p, s = o.info["p"], o.info["samples"]
        v, i, a, va = s["adv"]
        args = f"{q(p['tau'])} {q(p['r'])} {q(p['v_leak'])} {q(p['thr'])}"
        tol = q(1e-9 * max(1.0, abs(va)))
        goals.append(f"Goal Rabs (advance {args} {q(v)} {q(i)} {q(a)} - {q(va)}) <= {tol}.\n"
                     f"Proof. unfold advance. interval with (i_prec 80). Qed.")
        v, i, ts = s["spk"]
        if len(goals) < 120 and not math.isinf(ts) and ts > 0:
            tol = q(1e-7 * max(abs(ts), 1e-12))
            goals.append(f"Goal Rabs ((-1) * {q(p['tau'])} * ln (({q(p['thr'])} - {q(p['v_leak'])} - {q(p['r'])} * {q(i)}) / "
                         f"({q(v)} - {q(p['v_leak'])} - {q(p['r'])} * {q(i)})) - {q(ts)}) <= {tol}.\n"
                         f"Proof. interval with (i_prec 80). Qed.")
        if len(goals) >= 120:
            break
    if not goals:
        return [], 0
    d = os.path.join(BUILD, "corr")
    os.makedirs(d, exist_ok=True)
    p = os.path.join(d, "C20_interval.v")
    with open(p, "w") as f:
        f.write("From Coq Require Import Reals.\nFrom Interval Require Import Tactic.\n"
                "From NIR Require Import Gen.LifFormulas.\nOpen Scope R_scope.\n" + "\n".join(goals) + "\n")
    pr = subprocess.run(f"timeout 900 coqc -Q {COQ}/theories NIR -w none {p}", shell=True, cwd=ROOT,
                        stdout=subprocess.PIPE, stderr=subprocess.STDOUT, text=True)
    if pr.returncode != 0:
        return [f"interval validation: a float result of the implementation is not within tolerance of the translated "
                f"real-valued term: {' '.join(pr.stdout.split())[-300:]}"], 0
    return [], len(goals)
