"""JSON codec for Python/numpy values (so cases replay exactly) and node recipes.

A *recipe* describes how to build a NIR node with the real library:
  {"k": "Affine", "args": {name: value, ...}}                       leaf primitive (keyword call)
  {"k": "NIRGraph", "nodes": {name: recipe}, "edges": [[a,b],...], "metadata": value?}
Values are Python objects; enc()/dec() turn them into JSON-able structures and back.
"""
import base64

import numpy as np


def enc(v):
    if v is None or isinstance(v, (bool, int, str)) and not isinstance(v, np.generic):
        return v
    if isinstance(v, np.ndarray):
        if v.dtype.kind == "O":
            return {"__objarr__": [enc(x) for x in v.reshape(-1).tolist()], "shape": list(v.shape)}
        c = np.ascontiguousarray(v)
        order = "F" if (v.flags.f_contiguous and not v.flags.c_contiguous) else "C"
        out = {"__nd__": v.dtype.str, "shape": list(v.shape), "order": order,
               "b64": base64.b64encode(c.tobytes()).decode("ascii")}
        if not v.flags.writeable:
            out["ro"] = True
        if v.ndim >= 1 and v.size > 1 and all(st == 0 for st in v.strides):
            out["view"] = "bcast0"          # a fully broadcast (zero-stride) view of one element
        elif v.ndim >= 3 and not v.flags.c_contiguous and not v.flags.f_contiguous and v.size > 0:
            perm = sorted(range(v.ndim), key=lambda i: -abs(v.strides[i]))
            if v.transpose(perm).flags.c_contiguous:
                out["view"] = {"perm": perm}    # an axis-permuted view of a C-contiguous block (e.g. np.moveaxis)
        return out
    if isinstance(v, np.str_):
        return {"__npstr__": str(v)}
    if isinstance(v, np.bytes_):
        return {"__npbytes__": base64.b64encode(bytes(v)).decode("ascii")}
    if isinstance(v, np.generic):
        return {"__np__": v.dtype.str, "b64": base64.b64encode(v.tobytes()).decode("ascii")}
    if isinstance(v, float):
        return {"__float__": float(v).hex()}
    if isinstance(v, (bytes, bytearray)):
        return {"__bytes__": base64.b64encode(bytes(v)).decode("ascii")}
    if isinstance(v, tuple):
        return {"__tuple__": [enc(x) for x in v]}
    if isinstance(v, list):
        return [enc(x) for x in v]
    if isinstance(v, dict):
        return {"__dict__": [[k, enc(x)] for k, x in v.items()]}
    raise TypeError(f"cannot encode {type(v)}")


def dec(j):
    if j is None or isinstance(j, (bool, int, str)):
        return j
    if isinstance(j, list):
        return [dec(x) for x in j]
    if isinstance(j, dict):
        if "__nd__" in j:
            a = np.frombuffer(base64.b64decode(j["b64"]), dtype=np.dtype(j["__nd__"]))
            a = a.reshape(j["shape"]).copy()
            if j.get("order") == "F":
                a = np.asfortranarray(a)
            view = j.get("view")
            if view == "bcast0":
                a = np.broadcast_to(a.reshape(-1)[:1].reshape([1] * a.ndim), a.shape)
                if not j.get("ro"):
                    pass        # broadcast views are read-only by construction
            elif isinstance(view, dict):
                perm = view["perm"]
                inv = [perm.index(i) for i in range(len(perm))]
                a = np.ascontiguousarray(a.transpose(perm)).transpose(inv)
            if j.get("ro") and a.flags.writeable:
                a.setflags(write=False)
            return a
        if "__objarr__" in j:
            a = np.empty(len(j["__objarr__"]), dtype=object)
            for i, x in enumerate(j["__objarr__"]):
                a[i] = dec(x)
            return a.reshape(j["shape"])
        if "__npstr__" in j:
            return np.str_(j["__npstr__"])
        if "__npbytes__" in j:
            return np.bytes_(base64.b64decode(j["__npbytes__"]))
        if "__np__" in j:
            return np.frombuffer(base64.b64decode(j["b64"]), dtype=np.dtype(j["__np__"]))[0]
        if "__float__" in j:
            return float.fromhex(j["__float__"])
        if "__bytes__" in j:
            return base64.b64decode(j["__bytes__"])
        if "__tuple__" in j:
            return tuple(dec(x) for x in j["__tuple__"])
        if "__dict__" in j:
            return {k: dec(x) for k, x in j["__dict__"]}
    raise TypeError(f"cannot decode {j!r}")


def enc_recipe(r):
    if r["k"] == "NIRGraph":
        out = {"k": "NIRGraph", "nodes": [[n, enc_recipe(x)] for n, x in r["nodes"].items()],
               "edges": [list(e) for e in r["edges"]]}
        if "metadata" in r:
            out["metadata"] = enc(r["metadata"])
        if r.get("edge_lists"):
            out["edge_lists"] = r["edge_lists"]
        return out
    if r["k"] == "__alias__":
        return {"k": "__alias__", "of": r["of"]}
    out = {"k": r["k"], "args": [[n, enc(v)] for n, v in r["args"].items()]}
    if "set_types" in r:
        out["set_types"] = r["set_types"]
    if r.get("subclass"):
        out["subclass"] = True
    return out


def dec_recipe(j):
    if j["k"] == "NIRGraph":
        out = {"k": "NIRGraph", "nodes": {n: dec_recipe(x) for n, x in j["nodes"]},
               "edges": [tuple(e) for e in j["edges"]]}
        if "metadata" in j:
            out["metadata"] = dec(j["metadata"])
        if j.get("edge_lists"):
            out["edge_lists"] = j["edge_lists"]
        return out
    if j["k"] == "__alias__":
        return {"k": "__alias__", "of": j["of"]}
    out = {"k": j["k"], "args": {n: dec(v) for n, v in j["args"]}}
    if "set_types" in j:
        out["set_types"] = j["set_types"]
    if j.get("subclass"):
        out["subclass"] = True
    return out


_SUBCLASSES = {}


def _subclass_of(cls):
    if cls not in _SUBCLASSES:
        _SUBCLASSES[cls] = type("Tagged" + cls.__name__, (cls,), {"__module__": "user_code"})
    return _SUBCLASSES[cls]


def build(r):
    """Build the node a recipe describes with the real library (may raise)."""
    import nir
    if r["k"] == "NIRGraph":
        kw = {}
        if "metadata" in r:
            kw["metadata"] = r["metadata"]
        built = {n: build(x) for n, x in r["nodes"].items() if x["k"] != "__alias__"}
        nodes = {n: (built[x["of"]] if x["k"] == "__alias__" else built[n]) for n, x in r["nodes"].items()}
        if r.get("edge_lists") == "mixed":      # list and tuple records side by side (an edge appended later as a list)
            edges = [list(e) if i % 2 == 0 else tuple(e) for i, e in enumerate(r["edges"])]
        else:
            edges = [list(e) for e in r["edges"]] if r.get("edge_lists") else [tuple(e) for e in r["edges"]]
        return nir.NIRGraph(nodes=nodes, edges=edges, **kw)
    cls = getattr(nir, r["k"])
    if r.get("subclass"):
        cls = _subclass_of(cls)       # a user-defined subclass without new fields: still "a Conv2d" / "a SumPool2d" ...
    node = cls(**r["args"])
    if "set_types" in r:
        node.input_type = mat_ty(r["set_types"]["in"])
        node.output_type = mat_ty(r["set_types"]["out"])
    return node


def mat_ty(t):
    """JSON type description -> Python value: None | {key: None | ndarray | tuple}"""
    if t is None:
        return None
    out = {}
    for k, v in t:
        if v is None:
            out[k] = None
        elif isinstance(v, dict) and "nd" in v:
            out[k] = np.array(v["nd"], dtype=v["dt"])       # a shape held in an array of a given (possibly narrow) dtype
        elif isinstance(v, dict):
            out[k] = tuple(v["seq"])
        else:
            out[k] = np.array(v, dtype=np.int64)
    return out
